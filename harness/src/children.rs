//! Scripted children: futures, try-futures, unit futures, streams and upstream streams.
//! Every poll and every drop is logged; answers come from the per-child script in the world.

use crate::gate;
use crate::world::*;
use futures_core::Stream;
use std::collections::VecDeque;
use std::future::Future;
use std::marker::PhantomPinned;
use std::pin::Pin;
use std::task::{Context, Poll};

/// common part of every child poll; returns (resp, k)
fn child_poll(id: u32, addr: usize, cx: &mut Context<'_>, stream: bool) -> (String, i64) {
    let _s = Suspend::new();
    gate::sync_cb("child.enter");
    let (step, addr_id, key, over, have) = with(|w| {
        w.polls_in_call += 1;
        let over = w.polls_in_call > w.poll_limit;
        let step = w.scripts.get_mut(&id).and_then(|q| q.pop_front());
        let step = match step {
            Some(s) => s,
            None => {
                let resp = if w.ready.contains(&id) {
                    if stream {
                        "E"
                    } else {
                        "R"
                    }
                } else if !w.draining {
                    "P"
                } else if !stream {
                    "R"
                } else {
                    let left = w.stream_left.entry(id).or_insert(0);
                    if *left > 0 {
                        *left -= 1;
                        "I"
                    } else {
                        "E"
                    }
                };
                Step { acts: vec![], resp: resp.to_string() }
            }
        };
        let key = w.key_of(cx.waker().data() as usize);
        (step, w.addr_id(addr), key, over, w.nokeep || w.stash.contains_key(&id))
    });
    ev(format!(r#"{{"e":"cin","c":{},"key":{},"addr":{}}}"#, id, key, addr_id));
    if !have {
        let wk = {
            let _r = Resume::new();
            let _c = InCrate::enter();
            cx.waker().clone()
        };
        with(|w| w.stash.insert(id, wk));
    }
    if !over {
        for a in &step.acts {
            match a {
                Act::SelfWake => fire(id, cx.waker(), false),
                Act::Wake(c2) => {
                    let wk = with(|w| w.stash.remove(c2));
                    if let Some(wk) = wk {
                        fire(*c2, &wk, false);
                        with(|w| w.stash.insert(*c2, wk));
                    }
                }
            }
        }
    }
    if step.resp == "!" {
        // the child panics inside its poll
        ev(format!(r#"{{"e":"cpanic","c":{}}}"#, id));
        gate::sync_cb("child.exit");
        panic!("scripted panic in poll of child {}", id);
    }
    let k = if step.resp == "I" {
        with(|w| {
            let e = w.items_done.entry(id).or_insert(0);
            *e += 1;
            *e
        })
    } else {
        0
    };
    gate::sync_cb("child.exit");
    (step.resp, k)
}

fn log_cout(id: u32, resp: &str, k: i64) {
    let _s = Suspend::new();
    ev(format!(r#"{{"e":"cout","c":{},"resp":"{}","k":{}}}"#, id, resp, k));
}
fn log_cdrop(id: u32, addr: usize) {
    let _s = Suspend::new();
    gate::sync_cb("child.drop");
    let a = with(|w| {
        w.alive.remove(&id);
        w.addr_id(addr)
    });
    ev(format!(r#"{{"e":"cdrop","c":{},"addr":{}}}"#, id, a));
    // a destructor that panics (once, and never while already unwinding)
    if !std::thread::panicking() && with(|w| w.drop_panic.remove(&id)) {
        ev(format!(r#"{{"e":"dpanic","c":{}}}"#, id));
        panic!("scripted panic in drop of child {}", id);
    }
}

macro_rules! addr_of_self {
    ($s:expr) => {
        (&*$s) as *const _ as usize
    };
}

// ------------------------------------------------------------------ futures
pub struct SFut {
    pub id: u32,
    _pin: PhantomPinned,
}
impl SFut {
    pub fn new(id: u32) -> Self {
        let _s = Suspend::new();
        with(|w| w.alive.insert(id));
        SFut { id, _pin: PhantomPinned }
    }
}
impl Future for SFut {
    type Output = Token;
    fn poll(self: Pin<&mut Self>, cx: &mut Context<'_>) -> Poll<Token> {
        let a = addr_of_self!(self);
        let (resp, _) = child_poll(self.id, a, cx, false);
        let _s = Suspend::new();
        match resp.as_str() {
            "R" | "X" => {
                let t = Token::new(self.id as i64, 0);
                log_cout(self.id, "R", 0);
                Poll::Ready(t)
            }
            _ => {
                log_cout(self.id, "P", 0);
                Poll::Pending
            }
        }
    }
}
impl Drop for SFut {
    fn drop(&mut self) {
        log_cdrop(self.id, self as *const _ as usize);
    }
}

pub struct STry {
    pub id: u32,
    _pin: PhantomPinned,
}
impl STry {
    pub fn new(id: u32) -> Self {
        let _s = Suspend::new();
        with(|w| w.alive.insert(id));
        STry { id, _pin: PhantomPinned }
    }
}
impl Future for STry {
    type Output = Result<Token, Token>;
    fn poll(self: Pin<&mut Self>, cx: &mut Context<'_>) -> Poll<Self::Output> {
        let a = addr_of_self!(self);
        let (resp, _) = child_poll(self.id, a, cx, false);
        let _s = Suspend::new();
        match resp.as_str() {
            "R" => {
                let t = Token::new(self.id as i64, 0);
                log_cout(self.id, "R", 0);
                Poll::Ready(Ok(t))
            }
            "X" => {
                let t = Token::new(self.id as i64, 0);
                log_cout(self.id, "X", 0);
                Poll::Ready(Err(t))
            }
            _ => {
                log_cout(self.id, "P", 0);
                Poll::Pending
            }
        }
    }
}
impl Drop for STry {
    fn drop(&mut self) {
        log_cdrop(self.id, self as *const _ as usize);
    }
}

/// Children without drop glue (`needs_drop` is false for them): the crate cannot be observed dropping them, so the
/// harness accounts for them where the crate must have released them - at completion, and with the collection.
#[derive(Clone, Copy)]
pub struct PFut {
    pub id: u32,
}
#[derive(Clone, Copy)]
pub struct PTry {
    pub id: u32,
}
fn plain_new(id: u32) {
    let _s = Suspend::new();
    with(|w| {
        w.alive.insert(id);
        w.plain.insert(id, 0);
    });
}
impl PFut {
    pub fn new(id: u32) -> Self {
        plain_new(id);
        PFut { id }
    }
}
impl PTry {
    pub fn new(id: u32) -> Self {
        plain_new(id);
        PTry { id }
    }
}
fn plain_poll(id: u32, a: usize, cx: &mut Context<'_>) -> String {
    {
        let _s = Suspend::new();
        with(|w| w.plain.insert(id, a));
    }
    child_poll(id, a, cx, false).0
}
/// the collection is gone: so are the plain children it still held
pub fn plain_released_with_collection() {
    let rest: Vec<(u32, usize)> = with(|w| w.plain.iter().filter(|(c, _)| w.alive.contains(c)).map(|(c, a)| (*c, *a)).collect());
    for (c, a) in rest {
        log_cdrop(c, a);
    }
}
impl Future for PFut {
    type Output = Token;
    fn poll(self: Pin<&mut Self>, cx: &mut Context<'_>) -> Poll<Token> {
        let a = addr_of_self!(self);
        let resp = plain_poll(self.id, a, cx);
        let _s = Suspend::new();
        match resp.as_str() {
            "R" | "X" => {
                let t = Token::new(self.id as i64, 0);
                log_cout(self.id, "R", 0);
                log_cdrop(self.id, a);
                Poll::Ready(t)
            }
            _ => {
                log_cout(self.id, "P", 0);
                Poll::Pending
            }
        }
    }
}
impl Future for PTry {
    type Output = Result<Token, Token>;
    fn poll(self: Pin<&mut Self>, cx: &mut Context<'_>) -> Poll<Self::Output> {
        let a = addr_of_self!(self);
        let resp = plain_poll(self.id, a, cx);
        let _s = Suspend::new();
        match resp.as_str() {
            "R" | "X" => {
                let t = Token::new(self.id as i64, 0);
                log_cout(self.id, &resp, 0);
                log_cdrop(self.id, a);
                Poll::Ready(if resp == "R" { Ok(t) } else { Err(t) })
            }
            _ => {
                log_cout(self.id, "P", 0);
                Poll::Pending
            }
        }
    }
}

/// futures whose output has no drop glue (the futures themselves are ordinary tracked children)
pub struct OFut {
    pub id: u32,
    _pin: PhantomPinned,
}
pub struct OTry {
    pub id: u32,
    _pin: PhantomPinned,
}
impl OFut {
    pub fn new(id: u32) -> Self {
        let _s = Suspend::new();
        with(|w| w.alive.insert(id));
        OFut { id, _pin: PhantomPinned }
    }
}
impl OTry {
    pub fn new(id: u32) -> Self {
        let _s = Suspend::new();
        with(|w| w.alive.insert(id));
        OTry { id, _pin: PhantomPinned }
    }
}
impl Future for OFut {
    type Output = PTok;
    fn poll(self: Pin<&mut Self>, cx: &mut Context<'_>) -> Poll<PTok> {
        let a = addr_of_self!(self);
        let (resp, _) = child_poll(self.id, a, cx, false);
        let _s = Suspend::new();
        match resp.as_str() {
            "R" | "X" => {
                let t = PTok::new(self.id as i64, 0);
                log_cout(self.id, "R", 0);
                Poll::Ready(t)
            }
            _ => {
                log_cout(self.id, "P", 0);
                Poll::Pending
            }
        }
    }
}
impl Future for OTry {
    type Output = Result<PTok, Token>;
    fn poll(self: Pin<&mut Self>, cx: &mut Context<'_>) -> Poll<Self::Output> {
        let a = addr_of_self!(self);
        let (resp, _) = child_poll(self.id, a, cx, false);
        let _s = Suspend::new();
        match resp.as_str() {
            "R" => {
                let t = PTok::new(self.id as i64, 0);
                log_cout(self.id, "R", 0);
                Poll::Ready(Ok(t))
            }
            "X" => {
                let t = Token::new(self.id as i64, 0);
                log_cout(self.id, "X", 0);
                Poll::Ready(Err(t))
            }
            _ => {
                log_cout(self.id, "P", 0);
                Poll::Pending
            }
        }
    }
}
impl Drop for OFut {
    fn drop(&mut self) {
        log_cdrop(self.id, self as *const _ as usize);
    }
}
impl Drop for OTry {
    fn drop(&mut self) {
        log_cdrop(self.id, self as *const _ as usize);
    }
}

/// a future with a zero-sized output (for the joins): the output is registered as a plain token, the value itself is `()`
pub struct ZFut {
    pub id: u32,
    _pin: PhantomPinned,
}
impl ZFut {
    pub fn new(id: u32) -> Self {
        let _s = Suspend::new();
        with(|w| w.alive.insert(id));
        ZFut { id, _pin: PhantomPinned }
    }
}
impl Future for ZFut {
    type Output = ();
    fn poll(self: Pin<&mut Self>, cx: &mut Context<'_>) -> Poll<()> {
        let a = addr_of_self!(self);
        let (resp, _) = child_poll(self.id, a, cx, false);
        let _s = Suspend::new();
        match resp.as_str() {
            "R" | "X" => {
                let _ = PTok::new(self.id as i64, 0);
                log_cout(self.id, "R", 0);
                Poll::Ready(())
            }
            _ => {
                log_cout(self.id, "P", 0);
                Poll::Pending
            }
        }
    }
}
impl Drop for ZFut {
    fn drop(&mut self) {
        log_cdrop(self.id, self as *const _ as usize);
    }
}

/// a future with output `()` (for_each_concurrent); completion is logged as "E" (no output value)
pub struct SUnit {
    pub id: u32,
    _pin: PhantomPinned,
}
impl SUnit {
    pub fn new(id: u32) -> Self {
        let _s = Suspend::new();
        with(|w| w.alive.insert(id));
        SUnit { id, _pin: PhantomPinned }
    }
}
impl Future for SUnit {
    type Output = ();
    fn poll(self: Pin<&mut Self>, cx: &mut Context<'_>) -> Poll<()> {
        let a = addr_of_self!(self);
        let (resp, _) = child_poll(self.id, a, cx, false);
        match resp.as_str() {
            "R" | "X" | "E" => {
                log_cout(self.id, "E", 0);
                Poll::Ready(())
            }
            _ => {
                log_cout(self.id, "P", 0);
                Poll::Pending
            }
        }
    }
}
impl Drop for SUnit {
    fn drop(&mut self) {
        log_cdrop(self.id, self as *const _ as usize);
    }
}

// ------------------------------------------------------------------ streams (merge sources)
fn stream_poll(id: u32, a: usize, cx: &mut Context<'_>) -> Poll<Option<Token>> {
    let (resp, k) = child_poll(id, a, cx, true);
    let _s = Suspend::new();
    match resp.as_str() {
        "I" => {
            let t = Token::new(id as i64, k);
            log_cout(id, "I", k);
            Poll::Ready(Some(t))
        }
        "E" | "R" => {
            log_cout(id, "E", 0);
            Poll::Ready(None)
        }
        _ => {
            log_cout(id, "P", 0);
            Poll::Pending
        }
    }
}
pub struct SStream {
    pub id: u32,
    _pin: PhantomPinned,
}
impl SStream {
    pub fn new(id: u32) -> Self {
        let _s = Suspend::new();
        with(|w| w.alive.insert(id));
        SStream { id, _pin: PhantomPinned }
    }
}
/// items a scripted source still yields if it is driven to its end: (at least, at most)
pub fn source_left(w: &World, c: u32) -> (usize, usize) {
    let mut n = 0usize;
    let mut ended = false;
    if let Some(q) = w.scripts.get(&c) {
        for st in q.iter() {
            if st.resp == "I" {
                n += 1
            }
            if st.resp == "E" {
                ended = true;
                break;
            }
        }
    }
    // (a source the environment has completed ends at its next unscripted poll)
    if ended || w.ready.contains(&c) {
        (n, n)
    } else {
        (n, n + *w.stream_left.get(&c).unwrap_or(&0) as usize)
    }
}
/// honest hints of the merged sources: even ids report (at least, Some(at most)), odd ids no upper bound
fn source_hint(id: u32) -> (usize, Option<usize>) {
    let _s = Suspend::new();
    let (lo, hi) = with(|w| source_left(w, id));
    if id % 2 == 0 {
        (lo, Some(hi))
    } else {
        (lo, None)
    }
}
impl Stream for SStream {
    type Item = Token;
    fn poll_next(self: Pin<&mut Self>, cx: &mut Context<'_>) -> Poll<Option<Token>> {
        let a = addr_of_self!(self);
        stream_poll(self.id, a, cx)
    }
    fn size_hint(&self) -> (usize, Option<usize>) {
        source_hint(self.id)
    }
}
impl Drop for SStream {
    fn drop(&mut self) {
        log_cdrop(self.id, self as *const _ as usize);
    }
}
/// `Unpin` variant (MergeUnbounded requires it); the address is still observed
pub struct SStreamU {
    pub id: u32,
}
impl SStreamU {
    pub fn new(id: u32) -> Self {
        let _s = Suspend::new();
        with(|w| w.alive.insert(id));
        SStreamU { id }
    }
}
impl Stream for SStreamU {
    type Item = Token;
    fn poll_next(self: Pin<&mut Self>, cx: &mut Context<'_>) -> Poll<Option<Token>> {
        let a = addr_of_self!(self);
        stream_poll(self.id, a, cx)
    }
    fn size_hint(&self) -> (usize, Option<usize>) {
        source_hint(self.id)
    }
}
impl Drop for SStreamU {
    fn drop(&mut self) {
        log_cdrop(self.id, self as *const _ as usize);
    }
}

// ------------------------------------------------------------------ upstream of the adapters
#[derive(Clone, Debug, serde::Serialize, serde::Deserialize, PartialEq)]
pub struct UpStep {
    /// "I" item (creates child c), "P" pending, "X" error item (token c), "E" end
    pub resp: String,
    pub c: u32,
}
pub struct UpState {
    pub script: VecDeque<UpStep>,
    pub ended: bool,
    pub hint: String,
    pub pulled: i64,
}
pub static UP: std::sync::Mutex<Option<UpState>> = std::sync::Mutex::new(None);

pub trait FromUp: Sized {
    fn make(id: u32) -> Self;
    fn err(_id: u32) -> Option<Self> {
        None
    }
}
impl FromUp for SFut {
    fn make(id: u32) -> Self {
        SFut::new(id)
    }
}
impl FromUp for Result<STry, Token> {
    fn make(id: u32) -> Self {
        Ok(STry::new(id))
    }
    fn err(id: u32) -> Option<Self> {
        Some(Err(Token::new(id as i64, -1)))
    }
}
impl FromUp for u32 {
    fn make(id: u32) -> Self {
        id
    }
}

/// hint "huge": the upstream holds `usize::MAX + HUGE_EXTRA` items in all (the scripted ones first; the rest is never ready)
pub const HUGE_EXTRA: u128 = 2;
pub fn up_is_huge() -> bool {
    UP.lock().unwrap().as_ref().map(|u| u.hint == "huge").unwrap_or(false)
}
/// items the huge upstream still holds
pub fn up_huge_remaining() -> u128 {
    let g = UP.lock().unwrap();
    let pulled = g.as_ref().map(|u| u.pulled).unwrap_or(0) as u128;
    usize::MAX as u128 + HUGE_EXTRA - pulled
}
pub fn up_remaining() -> i64 {
    let g = UP.lock().unwrap();
    g.as_ref().map(|u| u.script.iter().filter(|s| s.resp == "I" || s.resp == "X").count() as i64).unwrap_or(0)
}

pub struct SUp<T> {
    _t: std::marker::PhantomData<fn() -> T>,
    _pin: PhantomPinned,
}
impl<T> SUp<T> {
    pub fn new() -> Self {
        SUp { _t: std::marker::PhantomData, _pin: PhantomPinned }
    }
}
impl<T> Drop for SUp<T> {
    fn drop(&mut self) {
        // the upstream is a pinned stream too: its last observation is its drop
        let _s = Suspend::new();
        let addr = self as *const Self as usize;
        let a = with(|w| w.addr_id(addr));
        ev(format!(r#"{{"e":"updrop","addr":{}}}"#, a));
    }
}
impl<T: FromUp> Stream for SUp<T> {
    type Item = T;
    fn poll_next(self: Pin<&mut Self>, cx: &mut Context<'_>) -> Poll<Option<T>> {
        let _s = Suspend::new();
        let _o = OutCrate::new();
        gate::sync_cb("up.enter");
        let addr = self.as_ref().get_ref() as *const Self as usize;
        let a = with(|w| w.addr_id(addr));
        let draining = with(|w| w.draining);
        let step = {
            let mut g = UP.lock().unwrap();
            let u = g.as_mut().expect("upstream");
            loop {
                match u.script.pop_front() {
                    Some(s) if s.resp == "P" && draining => continue,
                    Some(s) => break s,
                    None if u.hint == "huge" => break UpStep { resp: "P".into(), c: 0 },
                    None => break UpStep { resp: "E".into(), c: 0 },
                }
            }
        };
        match step.resp.as_str() {
            "I" => {
                ev(format!(r#"{{"e":"up","resp":"I","c":{},"addr":{}}}"#, step.c, a));
                UP.lock().unwrap().as_mut().unwrap().pulled += 1;
                Poll::Ready(Some(T::make(step.c)))
            }
            "X" => match T::err(step.c) {
                Some(e) => {
                    ev(format!(r#"{{"e":"up","resp":"X","c":{},"addr":{}}}"#, step.c, a));
                    UP.lock().unwrap().as_mut().unwrap().pulled += 1;
                    Poll::Ready(Some(e))
                }
                None => {
                    ev(format!(r#"{{"e":"up","resp":"P","c":0,"addr":{}}}"#, a));
                    let wk = cx.waker().clone();
                    let old = with(|w| w.up_waker.replace(wk));
                    drop(old);
                    Poll::Pending
                }
            },
            "P" => {
                ev(format!(r#"{{"e":"up","resp":"P","c":0,"addr":{}}}"#, a));
                let wk = cx.waker().clone();
                let old = with(|w| w.up_waker.replace(wk));
                    drop(old);
                Poll::Pending
            }
            _ => {
                ev(format!(r#"{{"e":"up","resp":"E","c":0,"addr":{}}}"#, a));
                UP.lock().unwrap().as_mut().unwrap().ended = true;
                Poll::Ready(None)
            }
        }
    }
    fn size_hint(&self) -> (usize, Option<usize>) {
        if up_is_huge() {
            let r = up_huge_remaining();
            return if r > usize::MAX as u128 { (usize::MAX, None) } else { (r as usize, Some(r as usize)) };
        }
        let r = up_remaining() as usize;
        let g = UP.lock().unwrap();
        match g.as_ref().map(|u| u.hint.as_str()).unwrap_or("exact") {
            "none" => (0, None),
            "loose" => (r / 2, Some(r + 2)),
            "lower" => (r, None),
            _ => (r, Some(r)),
        }
    }
}
