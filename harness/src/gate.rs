//! Gate scheduler: forces a chosen interleaving onto real threads.  Every sync point (hook events
//! inside the crate, harness callbacks) parks the calling thread until the script grants it a step.
//! Threads that are not registered with the scheduler pass through.

use std::cell::Cell;
use std::sync::{Condvar, Mutex};

thread_local! { static ME: Cell<usize> = const { Cell::new(usize::MAX) }; }

pub struct Sched {
    pub turn: Option<usize>,
    pub last: Vec<String>,
    pub finished: Vec<bool>,
    pub started: usize,
}
pub static SCHED: Mutex<Option<Sched>> = Mutex::new(None);
pub static CV: Condvar = Condvar::new();

pub fn me() -> i64 {
    let m = ME.with(|m| m.get());
    if m == usize::MAX {
        0
    } else {
        m as i64
    }
}

pub fn init(n: usize) {
    *SCHED.lock().unwrap() = Some(Sched { turn: None, last: vec![String::new(); n], finished: vec![false; n], started: 0 });
}
pub fn shutdown() {
    *SCHED.lock().unwrap() = None;
}
/// called by a worker thread first thing
pub fn register(id: usize) {
    ME.with(|m| m.set(id));
    sync(&format!("start"));
}
pub fn unregister() {
    let id = ME.with(|m| m.replace(usize::MAX));
    let mut g = SCHED.lock().unwrap();
    if let Some(s) = g.as_mut() {
        s.last[id] = "exit".into();
        s.finished[id] = true;
        s.turn = None;
        CV.notify_all();
    }
}

/// park until granted; `label` names the sync point just reached
pub fn sync(label: &str) {
    let id = ME.with(|m| m.get());
    if id == usize::MAX {
        return;
    }
    let mut g = SCHED.lock().unwrap();
    {
        let Some(s) = g.as_mut() else { return };
        s.last[id] = label.to_string();
        if label == "start" {
            s.started += 1;
        }
        s.turn = None;
        CV.notify_all();
    }
    loop {
        match g.as_ref() {
            None => return,
            Some(s) if s.turn == Some(id) => return,
            _ => {}
        }
        g = CV.wait(g).unwrap();
    }
}
pub fn sync_cb(label: &str) {
    sync(label)
}
/// let thread `p` run to its next sync point; returns the label it stopped at ("exit" when done)
pub fn step(p: usize) -> String {
    let mut g = SCHED.lock().unwrap();
    {
        let s = g.as_mut().unwrap();
        if s.finished[p] {
            return "exit".into();
        }
        s.turn = Some(p);
        CV.notify_all();
    }
    loop {
        if g.as_ref().unwrap().turn.is_none() {
            break;
        }
        g = CV.wait(g).unwrap();
    }
    g.as_ref().unwrap().last[p].clone()
}
pub fn wait_started(n: usize) {
    let mut g = SCHED.lock().unwrap();
    while g.as_ref().unwrap().started < n {
        g = CV.wait(g).unwrap();
    }
}
pub fn last(p: usize) -> String {
    SCHED.lock().unwrap().as_ref().unwrap().last[p].clone()
}
