//! Real threads against the real crate.
//!   fbv gate gate   --seed S --n N --out trace --scn-out scenarios     gate-scheduled interleavings (exact order)
//!   fbv gate stress --seed S --n N --out trace --scn-out scenarios     free-running threads
//!   fbv gate run <scenarios.jsonl> <trace>                             replay stored gate scenarios
//! One owner thread (push / poll / drop of the collection) and producer threads holding cloned child wakers
//! (wake_by_ref, wake, clone, drop).  In gate mode every sync point (hook events inside wake_by_ref / push /
//! pop / register / clone / drop, task-waker callbacks, child poll entry and exit) parks the thread until
//! the schedule grants it the next step, so exactly one thread runs at a time and the recorded trace is
//! totally ordered without clocks.  A thread is never released into a slot lock that a parked thread holds.

use crate::gate;
use crate::randgen::Rng;
use crate::subject::{Op, Runner, Scenario};
use crate::world::*;
use serde::{Deserialize, Serialize};
use std::collections::HashMap;
use std::io::{BufRead, Write};

#[derive(Clone, Debug, Serialize, Deserialize)]
#[serde(tag = "op", rename_all = "snake_case")]
pub enum POp {
    /// get an own clone of child c's waker (if the child has been polled)
    Take { c: u32 },
    WakeByRef { c: u32 },
    /// wake by value: consumes the producer's clone
    Wake { c: u32 },
    Clone { c: u32 },
    Drop { c: u32 },
}

#[derive(Clone, Debug, Serialize, Deserialize, Default)]
pub struct GateScenario {
    pub id: String,
    pub base: Scenario,
    pub producers: Vec<Vec<POp>>,
    /// thread chosen at each scheduling step (recorded, so that a run can be replayed exactly)
    #[serde(default)]
    pub schedule: Vec<usize>,
    #[serde(default)]
    pub exact: bool,
}

fn gen_gate(rng: &mut Rng, stress: bool) -> GateScenario {
    let kind = if rng.pct(60) { "fub" } else { "fu" };
    let nchild = 1 + rng.below(3) as u32;
    let mut base = Scenario { kind: kind.into(), ctor: "with_capacity".into(), tail: "none".into(), ..Default::default() };
    base.cap = if kind == "fub" { nchild as usize + rng.below(2) as usize } else { 1 };
    for c in 1..=nchild {
        let mut steps = vec![];
        for _ in 0..rng.below(3) {
            steps.push(Step { acts: if rng.pct(20) { vec![Act::SelfWake] } else { vec![] }, resp: "P".into() });
        }
        if rng.pct(50) {
            steps.push(Step { acts: vec![], resp: "R".into() });
        } else {
            for _ in 0..6 {
                steps.push(Step { acts: vec![], resp: "P".into() });
            }
        }
        base.scripts.insert(c, steps);
        base.ops.push(Op::Push { c, front: false, r#try: false });
    }
    let npoll = if stress { 200 } else { 2 + rng.below(4) };
    for i in 0..npoll {
        base.ops.push(Op::Poll { w: if rng.pct(75) { 1 } else { 2 } });
        if !stress && i == 0 && rng.pct(30) && kind == "fub" && base.cap > nchild as usize {
            base.scripts.insert(nchild + 1, vec![Step { acts: vec![], resp: "P".into() }]);
            base.ops.push(Op::Push { c: nchild + 1, front: false, r#try: false });
        }
    }
    if rng.pct(70) {
        base.ops.push(Op::DropColl);
    }
    let nprod = 1 + rng.below(2) as usize;
    let mut producers = vec![];
    for _ in 0..nprod {
        let mut ops = vec![];
        let n = if stress { 300 } else { 2 + rng.below(5) };
        let c0 = 1 + rng.below(nchild as u64) as u32;
        ops.push(POp::Take { c: c0 });
        for _ in 0..n {
            let c = if rng.pct(70) { c0 } else { 1 + rng.below(nchild as u64) as u32 };
            ops.push(match rng.below(20) {
                0..=1 => POp::Take { c },
                2..=12 => POp::WakeByRef { c },
                13..=14 => POp::Wake { c },
                15..=16 => POp::Clone { c },
                _ => POp::Drop { c },
            });
        }
        producers.push(ops);
    }
    GateScenario { id: String::new(), base, producers, schedule: vec![], exact: !stress }
}

fn producer_body(ops: &[POp], gated: bool) {
    let mut mine: Vec<(u32, std::task::Waker)> = vec![];
    for op in ops {
        if gated {
            gate::sync("op");
        } else if mine.is_empty() {
            std::thread::yield_now();
        }
        match op {
            POp::Take { c } | POp::Clone { c } => {
                // wait (bounded) until the child has been polled and left its waker
                if matches!(op, POp::Take { .. }) {
                    for _ in 0..40 {
                        if with(|w| w.stash.contains_key(c)) {
                            break;
                        }
                        if gated {
                            gate::sync("wait");
                        } else {
                            std::thread::yield_now();
                        }
                    }
                }
                // clone the stored waker of child c (an increment of the shared count on this thread)
                let wk = with(|w| w.stash.remove(c));
                if let Some(wk) = wk {
                    let cl = {
                        let _c = InCrate::enter();
                        wk.clone()
                    };
                    // put it back without dropping anything under the lock
                    let old = with(|w| w.stash.insert(*c, wk));
                    drop(old);
                    mine.push((*c, cl));
                } else if let Some(i) = mine.iter().position(|x| x.0 == *c) {
                    let cl = {
                        let _c = InCrate::enter();
                        mine[i].1.clone()
                    };
                    mine.push((*c, cl));
                }
            }
            POp::WakeByRef { c } => {
                if let Some(i) = mine.iter().position(|x| x.0 == *c) {
                    let wk = mine[i].1.clone_ref();
                    fire(*c, wk, false);
                }
            }
            POp::Wake { c } => {
                if let Some(i) = mine.iter().position(|x| x.0 == *c) {
                    let (_, wk) = mine.remove(i);
                    let key = with(|w| w.key_of(wk.data() as usize));
                    ev(format!(r#"{{"e":"wake_b","c":{},"key":{},"t":{}}}"#, c, key, gate::me()));
                    {
                        let _c = InCrate::enter();
                        wk.wake();
                    }
                    ev(format!(r#"{{"e":"wake_e","t":{}}}"#, gate::me()));
                }
            }
            POp::Drop { c } => {
                if let Some(i) = mine.iter().position(|x| x.0 == *c) {
                    let (_, wk) = mine.remove(i);
                    let _c = InCrate::enter();
                    drop(wk);
                }
            }
        }
    }
    if gated {
        gate::sync("op");
    }
    let _c = InCrate::enter();
    drop(mine);
}

trait CloneRef {
    fn clone_ref(&self) -> &Self;
}
impl CloneRef for std::task::Waker {
    fn clone_ref(&self) -> &Self {
        self
    }
}

/// what the scheduler knows about slot locks: (thread -> key it holds), from the labels of the sync points
fn lock_info(label: &str) -> Option<(u32, i64)> {
    // labels of hook sync points: "H<kind>:<key>"
    let rest = label.strip_prefix('H')?;
    let mut it = rest.split(':');
    let kind: u32 = it.next()?.parse().ok()?;
    let key: i64 = it.next()?.parse().ok()?;
    Some((kind, key))
}

pub fn run_gate(sc: &mut GateScenario, run: u64, rng: Option<&mut Rng>) {
    let gated = sc.exact;
    reset_world(true);
    ev(format!(
        r#"{{"e":"reset","kind":"{}","cap":{},"run":{},"exact":{}}}"#,
        sc.base.kind, sc.base.cap, run, gated
    ));
    with(|w| {
        for (c, steps) in &sc.base.scripts {
            w.scripts.insert(*c, steps.iter().cloned().collect());
        }
    });
    let nthreads = 1 + sc.producers.len();
    if gated {
        gate::init(nthreads);
    }
    let base = sc.base.clone();
    let owner = std::thread::spawn(move || {
        if gated {
            gate::register(0);
        }
        if let Some(mut r) = Runner::construct(&base) {
            for op in &base.ops {
                if gated {
                    gate::sync("op");
                }
                r.apply(op);
            }
            if gated {
                gate::sync("op");
            }
            r.drop_coll();
            // what the owner received is dropped here; the stored wakers are dropped by the main thread
            let rec = std::mem::take(&mut r.received);
            drop(rec);
        }
        if gated {
            gate::unregister();
        }
    });
    let mut handles = vec![];
    for (i, ops) in sc.producers.iter().enumerate() {
        let ops = ops.clone();
        handles.push(std::thread::spawn(move || {
            if gated {
                gate::register(i + 1);
            }
            producer_body(&ops, gated);
            if gated {
                gate::unregister();
            }
        }));
    }
    if gated {
        gate::wait_started(nthreads);
        let replay = !sc.schedule.is_empty();
        let mut sched_out = vec![];
        let mut held: HashMap<usize, i64> = HashMap::new();
        let mut wants: HashMap<usize, i64> = HashMap::new();
        let mut done = vec![false; nthreads];
        let mut cur = 0usize;
        let mut pos = 0usize;
        let mut rng_local = Rng::new(run.wrapping_mul(7919) ^ 0xABCDEF);
        let rng = match rng {
            Some(r) => r,
            None => &mut rng_local,
        };
        let mut steps = 0u64;
        loop {
            let runnable: Vec<usize> = (0..nthreads)
                .filter(|t| !done[*t])
                .filter(|t| match wants.get(t) {
                    Some(k) => !held.iter().any(|(h, hk)| h != t && hk == k),
                    None => true,
                })
                .collect();
            if runnable.is_empty() {
                break;
            }
            let t = if replay && pos < sc.schedule.len() && runnable.contains(&sc.schedule[pos]) {
                sc.schedule[pos]
            } else if runnable.contains(&cur) && rng.pct(65) {
                cur
            } else {
                runnable[rng.below(runnable.len() as u64) as usize]
            };
            pos += 1;
            cur = t;
            sched_out.push(t);
            let label = gate::step(t);
            steps += 1;
            wants.remove(&t);
            if label == "exit" {
                done[t] = true;
                held.remove(&t);
                continue;
            }
            match lock_info(&label) {
                // about to take the slot lock
                Some((20, k)) | Some((25, k)) | Some((40, k)) => {
                    held.remove(&t);
                    wants.insert(t, k);
                }
                // holds the slot lock now
                Some((21, k)) | Some((26, k)) => {
                    held.insert(t, k);
                }
                // still inside the locked region
                Some((22, _)) | Some((23, _)) | Some((27, _)) => {}
                _ => {
                    // any other sync point: tw.wake / tw.clone / tw.drop callbacks happen inside notify or
                    // register, possibly under the slot lock; everything else is outside
                    if !label.starts_with("tw.") {
                        held.remove(&t);
                    }
                }
            }
            if steps > 200_000 {
                break;
            }
        }
        sc.schedule = sched_out;
    }
    let _ = owner.join();
    for h in handles {
        let _ = h.join();
    }
    if gated {
        gate::shutdown();
    }
    // the stored wakers go last
    let (stash, pool) = with(|w| {
        (std::mem::take(&mut w.stash).into_iter().collect::<Vec<_>>(), std::mem::take(&mut w.pool))
    });
    {
        let _c = InCrate::enter();
        drop(stash);
        drop(pool);
    }
    take_allocs();
    ev(r#"{"e":"end"}"#.to_string());
}

pub fn main(args: &[String]) {
    let arg = |name: &str| args.iter().position(|a| a == name).and_then(|i| args.get(i + 1)).cloned();
    let mode = args.first().cloned().unwrap_or_default();
    match mode.as_str() {
        "gate" | "stress" => {
            let seed: u64 = arg("--seed").and_then(|s| s.parse().ok()).unwrap_or(1);
            let n: u64 = arg("--n").and_then(|s| s.parse().ok()).unwrap_or(100);
            let mut out = std::io::BufWriter::new(std::fs::File::create(arg("--out").expect("--out")).unwrap());
            let mut scn_out = arg("--scn-out").map(|p| std::io::BufWriter::new(std::fs::File::create(p).unwrap()));
            let mut rng = Rng::new(seed ^ 0x6A7E);
            let mut events = 0u64;
            for run in 1..=n {
                let mut sc = gen_gate(&mut rng, mode == "stress");
                sc.id = format!("{}:{}:{}", mode, seed, run);
                sc.base.id = sc.id.clone();
                run_gate(&mut sc, run, Some(&mut rng));
                if let Some(s) = scn_out.as_mut() {
                    writeln!(s, "{}", serde_json::to_string(&sc).unwrap()).unwrap();
                }
                for l in take_log() {
                    events += 1;
                    writeln!(out, "{}", l).unwrap();
                }
            }
            println!("{{\"runs\":{},\"events\":{}}}", n, events);
        }
        "run" => {
            let inp = std::fs::File::open(&args[1]).expect("open scenarios");
            let mut out = std::io::BufWriter::new(std::fs::File::create(&args[2]).expect("create trace"));
            let mut run = 0u64;
            for line in std::io::BufReader::new(inp).lines() {
                let line = line.unwrap();
                if line.trim().is_empty() {
                    continue;
                }
                let mut sc: GateScenario = serde_json::from_str(&line).expect("gate scenario");
                run += 1;
                run_gate(&mut sc, run, None);
                for l in take_log() {
                    writeln!(out, "{}", l).unwrap();
                }
            }
            println!("{{\"runs\":{}}}", run);
        }
        _ => {
            eprintln!("usage: fbv gate gate|stress|run ...");
            std::process::exit(2);
        }
    }
}
