//! Real threads against the real crate.
//!   fbv gate gate   --seed S --n N --out trace --scn-out scenarios     gate-scheduled interleavings (exact order)
//!   fbv gate stress --seed S --n N --out trace --scn-out scenarios     free-running threads
//!   fbv gate run <scenarios.jsonl> <trace>                             replay stored gate scenarios
//! One owner thread (push / poll / drop of the collection) and producer threads holding cloned child wakers
//! (wake_by_ref, wake, clone, drop).  In gate mode every sync point (hook events inside wake_by_ref / push /
//! pop / register / clone / drop, task-waker callbacks, child poll entry and exit) parks the thread until
//! the schedule grants it the next step, so exactly one thread runs at a time and the recorded trace is
//! totally ordered without clocks.  A thread is never released into a slot lock that a parked thread holds.

use crate::gate;
use crate::randgen::Rng;
use crate::subject::{Op, Runner, Scenario};
use crate::world::*;
use serde::{Deserialize, Serialize};
use std::collections::HashMap;
use std::io::{BufRead, Write};

#[derive(Clone, Debug, Serialize, Deserialize)]
#[serde(tag = "op", rename_all = "snake_case")]
pub enum POp {
    /// get an own clone of child c's waker (if the child has been polled)
    Take { c: u32 },
    WakeByRef { c: u32 },
    /// wake by value: consumes the producer's clone
    Wake { c: u32 },
    Clone { c: u32 },
    Drop { c: u32 },
    /// end of the sequential set-up phase (exhaustive mode): schedules are enumerated only after it
    Barrier,
}

#[derive(Clone, Debug, Serialize, Deserialize, Default)]
pub struct GateScenario {
    pub id: String,
    pub base: Scenario,
    pub producers: Vec<Vec<POp>>,
    /// thread chosen at each scheduling step (recorded, so that a run can be replayed exactly)
    #[serde(default)]
    pub schedule: Vec<usize>,
    #[serde(default)]
    pub exact: bool,
    /// exhaustive mode: position in the owner's op list of the barrier (0 = none)
    #[serde(default)]
    pub owner_barrier: usize,
    /// exhaustive mode: preemptions (global step, thread to switch to); otherwise threads run until they block or finish
    #[serde(default)]
    pub plan: Vec<(u64, usize)>,
    #[serde(default)]
    pub exhaustive: bool,
}

fn gen_gate(rng: &mut Rng, stress: bool) -> GateScenario {
    let kind = if rng.pct(60) { "fub" } else { "fu" };
    let nchild = 1 + rng.below(3) as u32;
    let mut base = Scenario { kind: kind.into(), ctor: "with_capacity".into(), tail: "none".into(), ..Default::default() };
    base.cap = if kind == "fub" { nchild as usize + rng.below(2) as usize } else { 1 };
    for c in 1..=nchild {
        let mut steps = vec![];
        for _ in 0..rng.below(3) {
            steps.push(Step { acts: if rng.pct(20) { vec![Act::SelfWake] } else { vec![] }, resp: "P".into() });
        }
        if rng.pct(50) {
            steps.push(Step { acts: vec![], resp: "R".into() });
        } else {
            for _ in 0..6 {
                steps.push(Step { acts: vec![], resp: "P".into() });
            }
        }
        base.scripts.insert(c, steps);
        base.ops.push(Op::Push { c, front: false, r#try: false });
    }
    let npoll = if stress { 200 } else { 2 + rng.below(4) };
    for i in 0..npoll {
        base.ops.push(Op::Poll { w: if rng.pct(75) { 1 } else { 2 } });
        if !stress && i == 0 && rng.pct(30) && kind == "fub" && base.cap > nchild as usize {
            base.scripts.insert(nchild + 1, vec![Step { acts: vec![], resp: "P".into() }]);
            base.ops.push(Op::Push { c: nchild + 1, front: false, r#try: false });
        }
    }
    if rng.pct(70) {
        base.ops.push(Op::DropColl);
    }
    let nprod = 1 + rng.below(2) as usize;
    let mut producers = vec![];
    for _ in 0..nprod {
        let mut ops = vec![];
        let n = if stress { 300 } else { 2 + rng.below(5) };
        let c0 = 1 + rng.below(nchild as u64) as u32;
        ops.push(POp::Take { c: c0 });
        for _ in 0..n {
            let c = if rng.pct(70) { c0 } else { 1 + rng.below(nchild as u64) as u32 };
            ops.push(match rng.below(20) {
                0..=1 => POp::Take { c },
                2..=12 => POp::WakeByRef { c },
                13..=14 => POp::Wake { c },
                15..=16 => POp::Clone { c },
                _ => POp::Drop { c },
            });
        }
        producers.push(ops);
    }
    GateScenario { id: String::new(), base, producers, schedule: vec![], exact: !stress, ..Default::default() }
}

fn producer_body(ops: &[POp], gated: bool) {
    let mut mine: Vec<(u32, std::task::Waker)> = vec![];
    for op in ops {
        if gated {
            gate::sync("op");
        } else if mine.is_empty() {
            std::thread::yield_now();
        }
        match op {
            POp::Take { c } | POp::Clone { c } => {
                // wait (bounded) until the child has been polled and left its waker
                if matches!(op, POp::Take { .. }) {
                    for _ in 0..40 {
                        if with(|w| w.stash.contains_key(c)) {
                            break;
                        }
                        if gated {
                            gate::sync("wait");
                        } else {
                            std::thread::yield_now();
                        }
                    }
                }
                // clone the stored waker of child c (an increment of the shared count on this thread)
                let wk = with(|w| w.stash.remove(c));
                if let Some(wk) = wk {
                    let cl = {
                        let _c = InCrate::enter();
                        wk.clone()
                    };
                    // put it back without dropping anything under the lock
                    let old = with(|w| w.stash.insert(*c, wk));
                    drop(old);
                    mine.push((*c, cl));
                } else if let Some(i) = mine.iter().position(|x| x.0 == *c) {
                    let cl = {
                        let _c = InCrate::enter();
                        mine[i].1.clone()
                    };
                    mine.push((*c, cl));
                }
            }
            POp::WakeByRef { c } => {
                if let Some(i) = mine.iter().position(|x| x.0 == *c) {
                    let wk = mine[i].1.clone_ref();
                    fire(*c, wk, false);
                }
            }
            POp::Wake { c } => {
                if let Some(i) = mine.iter().position(|x| x.0 == *c) {
                    let (_, wk) = mine.remove(i);
                    let key = with(|w| w.key_of(wk.data() as usize));
                    ev(format!(r#"{{"e":"wake_b","c":{},"key":{},"t":{}}}"#, c, key, gate::me()));
                    {
                        let _c = InCrate::enter();
                        wk.wake();
                    }
                    ev(format!(r#"{{"e":"wake_e","t":{}}}"#, gate::me()));
                }
            }
            POp::Drop { c } => {
                if let Some(i) = mine.iter().position(|x| x.0 == *c) {
                    let (_, wk) = mine.remove(i);
                    let _c = InCrate::enter();
                    drop(wk);
                }
            }
            POp::Barrier => {
                if gated {
                    gate::sync("barrier");
                }
            }
        }
    }
    if gated {
        gate::sync("op");
    }
    let _c = InCrate::enter();
    drop(mine);
}

trait CloneRef {
    fn clone_ref(&self) -> &Self;
}
impl CloneRef for std::task::Waker {
    fn clone_ref(&self) -> &Self {
        self
    }
}

/// what the scheduler knows about slot locks: (thread -> key it holds), from the labels of the sync points
fn lock_info(label: &str) -> Option<(u32, i64)> {
    // labels of hook sync points: "H<kind>:<key>"
    let rest = label.strip_prefix('H')?;
    let mut it = rest.split(':');
    let kind: u32 = it.next()?.parse().ok()?;
    let key: i64 = it.next()?.parse().ok()?;
    Some((kind, key))
}

pub fn run_gate(sc: &mut GateScenario, run: u64, rng: Option<&mut Rng>) -> Vec<(u64, Vec<usize>, usize)> {
    let mut alts: Vec<(u64, Vec<usize>, usize)> = vec![];
    let gated = sc.exact;
    reset_world(true);
    ev(format!(
        r#"{{"e":"reset","kind":"{}","cap":{},"run":{},"exact":{}}}"#,
        sc.base.kind, sc.base.cap, run, gated
    ));
    with(|w| {
        for (c, steps) in &sc.base.scripts {
            w.scripts.insert(*c, steps.iter().cloned().collect());
        }
    });
    let nthreads = 1 + sc.producers.len();
    if gated {
        gate::init(nthreads);
    }
    let base = sc.base.clone();
    let owner_barrier = sc.owner_barrier;
    let owner = std::thread::spawn(move || {
        if gated {
            gate::register(0);
        }
        if let Some(mut r) = Runner::construct(&base) {
            for (k, op) in base.ops.iter().enumerate() {
                if gated {
                    gate::sync(if owner_barrier != 0 && k == owner_barrier { "barrier" } else { "op" });
                }
                r.apply(op);
            }
            if gated {
                gate::sync("op");
            }
            r.drop_coll();
            // what the owner received is dropped here; the stored wakers are dropped by the main thread
            let rec = std::mem::take(&mut r.received);
            drop(rec);
        }
        if gated {
            gate::unregister();
        }
    });
    let mut handles = vec![];
    for (i, ops) in sc.producers.iter().enumerate() {
        let ops = ops.clone();
        handles.push(std::thread::spawn(move || {
            if gated {
                gate::register(i + 1);
            }
            producer_body(&ops, gated);
            if gated {
                gate::unregister();
            }
        }));
    }
    if gated {
        gate::wait_started(nthreads);
        let replay = !sc.schedule.is_empty();
        let mut sched_out = vec![];
        let mut held: HashMap<usize, i64> = HashMap::new();
        let mut wants: HashMap<usize, i64> = HashMap::new();
        let mut done = vec![false; nthreads];
        let mut cur = 0usize;
        let mut pos = 0usize;
        let mut rng_local = Rng::new(run.wrapping_mul(7919) ^ 0xABCDEF);
        let rng = match rng {
            Some(r) => r,
            None => &mut rng_local,
        };
        let mut steps = 0u64;
        let mut at_barrier = vec![false; nthreads];
        let mut setup_done = false;
        let mut step0 = 0u64;
        loop {
            let runnable: Vec<usize> = (0..nthreads)
                .filter(|t| !done[*t])
                .filter(|t| match wants.get(t) {
                    Some(k) => !held.iter().any(|(h, hk)| h != t && hk == k),
                    None => true,
                })
                .collect();
            if runnable.is_empty() {
                break;
            }
            let t = if sc.exhaustive {
                // set-up phase: every thread runs to its barrier, owner first; afterwards threads run until they
                // block or finish, except at the preemption points of the plan
                let not_at_barrier: Vec<usize> = runnable.iter().copied().filter(|t| !at_barrier[*t]).collect();
                if !setup_done && !not_at_barrier.is_empty() {
                    not_at_barrier[0]
                } else {
                    if !setup_done {
                        setup_done = true;
                        step0 = steps;
                    }
                    let rel = steps - step0;
                    alts.push((rel, runnable.clone(), cur));
                    match sc.plan.iter().find(|p| p.0 == rel) {
                        Some(p) if runnable.contains(&p.1) => p.1,
                        _ => {
                            if runnable.contains(&cur) {
                                cur
                            } else {
                                runnable[0]
                            }
                        }
                    }
                }
            } else if replay && pos < sc.schedule.len() && runnable.contains(&sc.schedule[pos]) {
                sc.schedule[pos]
            } else if runnable.contains(&cur) && rng.pct(65) {
                cur
            } else {
                runnable[rng.below(runnable.len() as u64) as usize]
            };
            pos += 1;
            cur = t;
            sched_out.push(t);
            let label = gate::step(t);
            steps += 1;
            wants.remove(&t);
            if label == "exit" {
                done[t] = true;
                at_barrier[t] = true;
                held.remove(&t);
                continue;
            }
            if label == "barrier" {
                at_barrier[t] = true;
            }
            match lock_info(&label) {
                // about to take the slot lock
                Some((20, k)) | Some((25, k)) | Some((40, k)) => {
                    held.remove(&t);
                    wants.insert(t, k);
                }
                // holds the slot lock now
                Some((21, k)) | Some((26, k)) => {
                    held.insert(t, k);
                }
                // still inside the locked region
                Some((22, _)) | Some((23, _)) | Some((27, _)) => {}
                _ => {
                    // any other sync point: tw.wake / tw.clone / tw.drop callbacks happen inside notify or
                    // register, possibly under the slot lock; everything else is outside
                    if !label.starts_with("tw.") {
                        held.remove(&t);
                    }
                }
            }
            if steps > 200_000 {
                break;
            }
        }
        sc.schedule = sched_out;
    }
    let _ = owner.join();
    for h in handles {
        let _ = h.join();
    }
    if gated {
        gate::shutdown();
    }
    // the stored wakers go last
    let (stash, pool) = with(|w| {
        (std::mem::take(&mut w.stash).into_iter().collect::<Vec<_>>(), std::mem::take(&mut w.pool))
    });
    {
        let _c = InCrate::enter();
        drop(stash);
        drop(pool);
    }
    take_allocs();
    ev(r#"{"e":"end"}"#.to_string());
    alts
}

/// the fixed small programs whose schedules are enumerated exhaustively (preemption-bounded)
pub fn exhaustive_scenarios() -> Vec<GateScenario> {
    let pend = |n: usize| (0..n).map(|_| Step { acts: vec![], resp: "P".into() }).collect::<Vec<_>>();
    let push = |c: u32| Op::Push { c, front: false, r#try: false };
    let mut v = vec![];
    let mk = |id: &str, kind: &str, cap: usize, scripts: Vec<(u32, Vec<Step>)>, ops: Vec<Op>, barrier: usize, producers: Vec<Vec<POp>>| {
        let mut base = Scenario { kind: kind.into(), cap, ctor: "with_capacity".into(), tail: "none".into(), ..Default::default() };
        for (c, st) in scripts {
            base.scripts.insert(c, st);
        }
        base.ops = ops;
        base.id = id.to_string();
        GateScenario { id: id.to_string(), base, producers, schedule: vec![], exact: true, owner_barrier: barrier, plan: vec![], exhaustive: true }
    };
    // S1: one child, a wake races two polls
    v.push(mk("x1:wake-vs-poll", "fub", 1, vec![(1, pend(8))], vec![push(1), Op::Poll { w: 1 }, Op::Poll { w: 1 }, Op::Poll { w: 1 }, Op::DropColl], 2,
        vec![vec![POp::Take { c: 1 }, POp::Barrier, POp::WakeByRef { c: 1 }]]));
    // S2: the task waker changes between the polls
    v.push(mk("x2:waker-change", "fub", 1, vec![(1, pend(8))], vec![push(1), Op::Poll { w: 1 }, Op::Poll { w: 2 }, Op::Poll { w: 2 }], 2,
        vec![vec![POp::Take { c: 1 }, POp::Barrier, POp::WakeByRef { c: 1 }]]));
    // S3: two producers, two children: delegated notification
    v.push(mk("x3:two-producers", "fub", 2, vec![(1, pend(8)), (2, pend(8))], vec![push(1), push(2), Op::Poll { w: 1 }, Op::Poll { w: 1 }, Op::Poll { w: 1 }], 3,
        vec![vec![POp::Take { c: 1 }, POp::Barrier, POp::WakeByRef { c: 1 }], vec![POp::Take { c: 2 }, POp::Barrier, POp::WakeByRef { c: 2 }]]));
    // S4: the collection dies while a waker is used and dropped on another thread (last reference race)
    v.push(mk("x4:drop-race", "fub", 1, vec![(1, pend(8))], vec![push(1), Op::Poll { w: 1 }, Op::DropColl], 2,
        vec![vec![POp::Take { c: 1 }, POp::Barrier, POp::WakeByRef { c: 1 }, POp::Clone { c: 1 }, POp::Drop { c: 1 }, POp::Wake { c: 1 }]]));
    // S5: stale waker of a finished child, slot reused
    v.push(mk("x5:stale-reuse", "fub", 1, vec![(1, vec![Step { acts: vec![], resp: "P".into() }, Step { acts: vec![], resp: "R".into() }]), (2, pend(8))],
        vec![push(1), Op::Poll { w: 1 }, Op::Wake { c: 1, by_val: false }, Op::Poll { w: 1 }, push(2), Op::Poll { w: 1 }, Op::Poll { w: 1 }], 3,
        vec![vec![POp::Take { c: 1 }, POp::Barrier, POp::WakeByRef { c: 1 }, POp::WakeByRef { c: 1 }]]));
    // S6: two groups of the unbounded collection
    v.push(mk("x6:two-groups", "fu", 1, vec![(1, pend(8)), (2, pend(8))], vec![push(1), push(2), Op::Poll { w: 1 }, Op::Poll { w: 1 }, Op::Poll { w: 2 }], 3,
        vec![vec![POp::Take { c: 1 }, POp::Barrier, POp::WakeByRef { c: 1 }], vec![POp::Take { c: 2 }, POp::Barrier, POp::WakeByRef { c: 2 }]]));
    // S7: repeated wakes of one child from two threads (at most one queue entry)
    v.push(mk("x7:double-wake", "fub", 1, vec![(1, pend(8))], vec![push(1), Op::Poll { w: 1 }, Op::Poll { w: 1 }, Op::Poll { w: 1 }], 2,
        vec![vec![POp::Take { c: 1 }, POp::Barrier, POp::WakeByRef { c: 1 }], vec![POp::Take { c: 1 }, POp::Barrier, POp::Wake { c: 1 }]]));
    v
}

/// enumerate every schedule with at most `pb` preemptions (depth-first over preemption plans)
fn explore(sc0: &GateScenario, pb: usize, run: &mut u64, limit: u64, emit: &mut dyn FnMut(&GateScenario, Vec<String>)) {
    let mut stack: Vec<Vec<(u64, usize)>> = vec![vec![]];
    while let Some(plan) = stack.pop() {
        if *run >= limit {
            return;
        }
        let mut sc = sc0.clone();
        sc.plan = plan.clone();
        sc.schedule.clear();
        *run += 1;
        sc.id = format!("{}:pb{}:{:?}", sc0.id, plan.len(), plan);
        sc.base.id = sc.id.clone();
        let alts = run_gate(&mut sc, *run, None);
        emit(&sc, take_log());
        if plan.len() < pb {
            let after = plan.last().map(|p| p.0 as i64).unwrap_or(-1);
            for (rel, runnable, cur) in alts {
                if (rel as i64) <= after {
                    continue;
                }
                // what the default policy does at this step
                let default = if runnable.contains(&cur) { cur } else { runnable[0] };
                for t in runnable {
                    if t != default {
                        let mut p2 = plan.clone();
                        p2.push((rel, t));
                        stack.push(p2);
                    }
                }
            }
        }
    }
}

pub fn main(args: &[String]) {
    let arg = |name: &str| args.iter().position(|a| a == name).and_then(|i| args.get(i + 1)).cloned();
    let mode = args.first().cloned().unwrap_or_default();
    match mode.as_str() {
        "gate" | "stress" => {
            let seed: u64 = arg("--seed").and_then(|s| s.parse().ok()).unwrap_or(1);
            let n: u64 = arg("--n").and_then(|s| s.parse().ok()).unwrap_or(100);
            let mut out = std::io::BufWriter::new(std::fs::File::create(arg("--out").expect("--out")).unwrap());
            crate::start_watchdog(arg("--out").unwrap(), 20);
            let mut scn_out = arg("--scn-out").map(|p| std::io::BufWriter::new(std::fs::File::create(p).unwrap()));
            let mut rng = Rng::new(seed ^ 0x6A7E);
            let mut events = 0u64;
            for run in 1..=n {
                let mut sc = gen_gate(&mut rng, mode == "stress");
                sc.id = format!("{}:{}:{}", mode, seed, run);
                sc.base.id = sc.id.clone();
                run_gate(&mut sc, run, Some(&mut rng));
                if let Some(s) = scn_out.as_mut() {
                    writeln!(s, "{}", serde_json::to_string(&sc).unwrap()).unwrap();
                }
                for l in take_log() {
                    events += 1;
                    writeln!(out, "{}", l).unwrap();
                }
                out.flush().unwrap();
                if let Some(s) = scn_out.as_mut() {
                    s.flush().unwrap();
                }
            }
            println!("{{\"runs\":{},\"events\":{}}}", n, events);
        }
        "exhaust" => {
            let pb: usize = arg("--pb").and_then(|s| s.parse().ok()).unwrap_or(1);
            let limit: u64 = arg("--limit").and_then(|s| s.parse().ok()).unwrap_or(200_000);
            let only = arg("--only");
            let mut out = std::io::BufWriter::new(std::fs::File::create(arg("--out").expect("--out")).unwrap());
            crate::start_watchdog(arg("--out").unwrap(), 20);
            let mut scn_out = arg("--scn-out").map(|p| std::io::BufWriter::new(std::fs::File::create(p).unwrap()));
            let mut run = 0u64;
            let mut events = 0u64;
            let mut per = vec![];
            for sc in exhaustive_scenarios() {
                if let Some(o) = &only {
                    if !sc.id.starts_with(o.as_str()) {
                        continue;
                    }
                }
                let before = run;
                let lim = run + limit;
                explore(&sc, pb, &mut run, lim, &mut |s, log| {
                    if let Some(so) = scn_out.as_mut() {
                        writeln!(so, "{}", serde_json::to_string(s).unwrap()).unwrap();
                    }
                    for l in log {
                        events += 1;
                        writeln!(out, "{}", l).unwrap();
                    }
                    out.flush().unwrap();
                });
                per.push(format!("\"{}\":{}", sc.id, run - before));
            }
            println!("{{\"runs\":{},\"events\":{},\"pb\":{},\"schedules\":{{{}}}}}", run, events, pb, per.join(","));
        }
        "run" => {
            let inp = std::fs::File::open(&args[1]).expect("open scenarios");
            let mut out = std::io::BufWriter::new(std::fs::File::create(&args[2]).expect("create trace"));
            let mut run = 0u64;
            for line in std::io::BufReader::new(inp).lines() {
                let line = line.unwrap();
                if line.trim().is_empty() {
                    continue;
                }
                let mut sc: GateScenario = serde_json::from_str(&line).expect("gate scenario");
                run += 1;
                run_gate(&mut sc, run, None);
                for l in take_log() {
                    writeln!(out, "{}", l).unwrap();
                }
            }
            println!("{{\"runs\":{}}}", run);
        }
        _ => {
            eprintln!("usage: fbv gate gate|stress|run ...");
            std::process::exit(2);
        }
    }
}
