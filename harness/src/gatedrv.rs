//! Gate-scheduled multi-thread driver (filled in later).
pub fn main(_args: &[String]) {
    eprintln!("gate driver not built yet");
    std::process::exit(2);
}
