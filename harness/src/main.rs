//! fbv - conformance harness for futures-buffered.
//!
//!   fbv replay <pred.jsonl> <trace.ndjson> [--tails drain,quiet,drop] [--hooklog] [--scn-out f] [--drift f]
//!        execute TLC-generated predicted traces (one JSON array of events per line) on the real crate
//!   fbv run <scenarios.jsonl> <trace.ndjson> [--hooklog]
//!        execute stored scenarios (replay files)
//!   fbv random --kind K --seed S --n N --out trace.ndjson --scn-out scenarios.jsonl [--size small|real] [--hooklog]
//!        generate random scenarios, execute them, store both
//!   fbv gate ...   (see gatedrv.rs)

mod children;
mod gate;
mod gatedrv;
mod randgen;
mod subject;
mod world;

use children::UpStep;
use std::collections::BTreeMap;
use std::io::{BufRead, Write};
use subject::{run_scenario, Op, Scenario};
use world::{Act, Step};

#[global_allocator]
static GLOBAL: world::Counting = world::Counting;

fn arg<'a>(args: &'a [String], name: &str) -> Option<&'a str> {
    args.iter().position(|a| a == name).and_then(|i| args.get(i + 1)).map(|s| s.as_str())
}
fn flag(args: &[String], name: &str) -> bool {
    args.iter().any(|a| a == name)
}

/// predicted event trace (from Coll.tla's Gen runs) -> scenario
pub fn pred_to_scenario(pred: &[serde_json::Value], id: &str) -> Scenario {
    let mut sc = Scenario { id: id.to_string(), ctor: "with_capacity".into(), ..Default::default() };
    let mut in_poll = false;
    let mut cur: Option<u32> = None;
    let mut acts: Vec<Act> = vec![];
    let mut scripts: BTreeMap<u32, Vec<Step>> = BTreeMap::new();
    let mut uptotal: u64 = 0;
    let mut maxc: u32 = 0;
    for e in pred {
        let name = e["e"].as_str().unwrap_or("");
        let c = e["c"].as_u64().unwrap_or(0) as u32;
        if c < 100_000 {
            maxc = maxc.max(c);
        }
        match name {
            "reset" => {
                sc.kind = e["kind"].as_str().unwrap_or("").to_string();
                sc.cap = e["cap"].as_u64().unwrap_or(0) as usize;
                uptotal = e["uptotal"].as_u64().unwrap_or(0);
            }
            "push" => {
                let how = e["how"].as_str().unwrap_or("back");
                let res = e["res"].as_str().unwrap_or("ok");
                if how == "init" {
                    sc.init.push(c);
                    sc.ctor = "from_iter".into();
                } else {
                    sc.ops.push(Op::Push { c, front: how == "front", r#try: res == "full" || c % 2 == 0 });
                }
            }
            "poll" => {
                sc.ops.push(Op::Poll { w: e["w"].as_u64().unwrap_or(1) as u32 });
                in_poll = true;
            }
            "cin" => {
                cur = Some(c);
                acts.clear();
            }
            "wake_b" => {
                if in_poll && cur.is_some() {
                    acts.push(if Some(c) == cur { Act::SelfWake } else { Act::Wake(c) });
                } else if !in_poll {
                    sc.ops.push(Op::Wake { c, by_val: false });
                }
            }
            "cout" => {
                scripts.entry(c).or_default().push(Step {
                    acts: std::mem::take(&mut acts),
                    resp: e["resp"].as_str().unwrap_or("P").to_string(),
                });
                cur = None;
            }
            "cpanic" => {
                // the model lets this poll of the child panic
                scripts.entry(c).or_default().push(Step { acts: std::mem::take(&mut acts), resp: "!".to_string() });
                cur = None;
            }
            "ret" | "vec" | "err" => in_poll = false,
            "up" => sc.up.push(UpStep { resp: e["resp"].as_str().unwrap_or("E").to_string(), c }),
            "dropc_b" => sc.ops.push(Op::DropColl),
            _ => {}
        }
    }
    sc.scripts = scripts;
    sc.pred = pred.to_vec();
    if matches!(sc.kind.as_str(), "bu" | "bo" | "tbu" | "tbo" | "fe") {
        // the model's upstream produces `uptotal` items in all; what the prefix did not pull yet is still to come
        let pulled = sc.up.iter().filter(|u| u.resp == "I" || u.resp == "X").count() as u64;
        let ended = sc.up.iter().any(|u| u.resp == "E");
        if !ended {
            for _ in pulled..uptotal {
                maxc += 1;
                sc.up.push(UpStep { resp: "I".into(), c: maxc });
            }
            sc.up.push(UpStep { resp: "E".into(), c: 0 });
        }
        sc.hint = "exact".into();
    }
    if matches!(sc.kind.as_str(), "mb" | "mu") {
        // sources keep one more item for the drain phase unless their script ended them
        for c in sc.scripts.keys() {
            sc.stream_left.insert(*c, 1);
        }
    }
    sc
}

/// projection used for the DRIFT comparison between predicted and recorded events
fn norm(e: &serde_json::Value) -> Option<String> {
    let n = e["e"].as_str()?;
    let g = |k: &str| e[k].to_string();
    Some(match n {
        "push" => format!("push c={} how={} res={}", g("c"), g("how"), g("res")),
        "poll" => format!("poll w={}", g("w")),
        "cin" => format!("cin c={} key={}", g("c"), g("key")),
        "cout" => format!("cout c={} resp={} k={}", g("c"), g("resp"), g("k")),
        "cpanic" => format!("cpanic c={}", g("c")),
        "wake_b" => format!("wake_b c={} key={}", g("c"), g("key")),
        "wake_e" => "wake_e".into(),
        "tw" => format!("tw w={}", g("w")),
        "ret" => format!("ret res={} c={} k={}", g("res"), g("c"), g("k")),
        "cdrop" => format!("~drop c={}", g("c")),
        "odrop" => format!("~drop o={},{}", g("c"), g("k")),
        "obs" => format!(
            "obs len={} empty={} term={} cap={} lo={} hi={}",
            g("len"),
            g("empty"),
            g("term"),
            g("cap"),
            g("lo"),
            g("hi")
        ),
        "dropc_b" => "dropc_b".into(),
        "dropc_e" => "dropc_e".into(),
        _ => return None,
    })
}
fn norm_seq(evs: &[serde_json::Value]) -> Vec<String> {
    let mut v: Vec<String> = evs.iter().filter_map(norm).collect();
    // runs of drops are compared as multisets
    let mut i = 0;
    while i < v.len() {
        if v[i].starts_with("~drop") {
            let mut j = i;
            while j < v.len() && v[j].starts_with("~drop") {
                j += 1;
            }
            v[i..j].sort();
            i = j;
        } else {
            i += 1;
        }
    }
    v
}

/// Watchdog: when the crate hangs (no event for `secs` seconds) the partial trace of the current run is appended to
/// the trace file together with a `hang` event, and the process exits with status 3.
pub fn start_watchdog(trace_path: String, secs: u64) {
    std::thread::spawn(move || {
        let mut last = world::HEARTBEAT.load(std::sync::atomic::Ordering::Relaxed);
        let mut idle = 0u64;
        loop {
            std::thread::sleep(std::time::Duration::from_secs(1));
            let now = world::HEARTBEAT.load(std::sync::atomic::Ordering::Relaxed);
            if now != last {
                last = now;
                idle = 0;
                continue;
            }
            idle += 1;
            if idle < secs {
                continue;
            }
            let log = world::take_log();
            if log.is_empty() {
                // nothing in progress (e.g. the main thread is writing files)
                idle = 0;
                continue;
            }
            let mut wh = "other";
            for l in log.iter().rev() {
                if l.starts_with(r#"{"e":"ret""#) || l.starts_with(r#"{"e":"dropc_e""#) {
                    break;
                }
                if l.starts_with(r#"{"e":"poll""#) {
                    wh = "poll";
                    break;
                }
                if l.starts_with(r#"{"e":"dropc_b""#) {
                    wh = "drop";
                    break;
                }
            }
            if let Ok(mut f) = std::fs::OpenOptions::new().append(true).create(true).open(&trace_path) {
                for l in &log {
                    let _ = writeln!(f, "{}", l);
                }
                let _ = writeln!(f, "{{\"e\":\"hang\",\"where\":\"{}\"}}", wh);
            }
            println!("{{\"runs\":0,\"hung\":true,\"where\":\"{}\"}}", wh);
            std::process::exit(3);
        }
    });
}

fn write_lines(path: &str, lines: &[String]) {
    let mut f = std::io::BufWriter::new(std::fs::File::create(path).expect("create"));
    for l in lines {
        writeln!(f, "{}", l).unwrap();
    }
}

fn main() {
    let args: Vec<String> = std::env::args().collect();
    if args.len() < 2 {
        eprintln!("usage: fbv replay|run|random|gate ...");
        std::process::exit(2);
    }
    std::panic::set_hook(Box::new(|_| {}));
    world::reset_world(false);
    world::install_hook();
    let hooklog = flag(&args, "--hooklog");
    if std::env::var("FBV_TRAP_ALLOC").is_ok() {
        world::TRAP.store(true, std::sync::atomic::Ordering::Relaxed);
    }
    match args[1].as_str() {
        "replay" => {
            let inp = std::fs::File::open(&args[2]).expect("open pred");
            let tails: Vec<String> =
                arg(&args, "--tails").unwrap_or("drain").split(',').map(|s| s.to_string()).collect();
            let mut scn_out = arg(&args, "--scn-out").map(|p| std::io::BufWriter::new(std::fs::File::create(p).unwrap()));
            let mut drift_out = arg(&args, "--drift").map(|p| std::io::BufWriter::new(std::fs::File::create(p).unwrap()));
            let mut out = std::io::BufWriter::new(std::fs::File::create(&args[3]).expect("create trace"));
            start_watchdog(args[3].clone(), 20);
            let mut run = 0u64;
            let mut drifts = 0u64;
            let mut compared = 0u64;
            for (ln, line) in std::io::BufReader::new(inp).lines().enumerate() {
                let line = line.unwrap();
                if line.trim().is_empty() {
                    continue;
                }
                let pred: Vec<serde_json::Value> = match serde_json::from_str(&line) {
                    Ok(v) => v,
                    Err(e) => {
                        eprintln!("bad pred line {}: {}", ln + 1, e);
                        std::process::exit(2);
                    }
                };
                for (ti, tail) in tails.iter().enumerate() {
                    run += 1;
                    let mut sc = pred_to_scenario(&pred, &format!("gen:{}:{}", ln + 1, tail));
                    sc.tail = tail.clone();
                    if let Some(s) = scn_out.as_mut() {
                        let mut sc2 = sc.clone();
                        sc2.pred.clear();
                        writeln!(s, "{}", serde_json::to_string(&sc2).unwrap()).unwrap();
                        s.flush().unwrap();
                    }
                    run_scenario(&sc, run, hooklog);
                    let log = world::take_log();
                    if ti == 0 {
                        // DRIFT: the recorded prefix must equal the prediction
                        let rec: Vec<serde_json::Value> =
                            log.iter().map(|l| serde_json::from_str(l).unwrap()).collect();
                        let want = norm_seq(&pred);
                        let cut = rec.iter().position(|e| e["e"] == "drain_b").unwrap_or(rec.len());
                        let mut got = norm_seq(&rec[..cut]);
                        if got.len() > want.len() && tail != "drain" {
                            got.truncate(want.len());
                        }
                        // the harness appends its own drop/end after the ops; compare the common prefix
                        let n = want.len().min(got.len());
                        compared += 1;
                        let bad = (0..n).find(|&i| want[i] != got[i]).or(if got.len() < want.len() { Some(n) } else { None });
                        if let Some(i) = bad {
                            drifts += 1;
                            if let Some(d) = drift_out.as_mut() {
                                writeln!(
                                    d,
                                    "{{\"line\":{},\"at\":{},\"want\":{:?},\"got\":{:?}}}",
                                    ln + 1,
                                    i,
                                    want.get(i),
                                    got.get(i)
                                )
                                .unwrap();
                            }
                        }
                    }
                    for l in log {
                        writeln!(out, "{}", l).unwrap();
                    }
                    out.flush().unwrap();
                }
            }
            println!("{{\"runs\":{},\"compared\":{},\"drift\":{}}}", run, compared, drifts);
        }
        "replay-ord" => {
            // behaviours of Ordered.tla (K-bit counters) on the real 64-bit collections
            let inp = std::fs::File::open(&args[2]).expect("open pred");
            let kind = arg(&args, "--kind").unwrap_or("fo").to_string();
            let mut out = std::io::BufWriter::new(std::fs::File::create(&args[3]).expect("create trace"));
            let mut scn_out = arg(&args, "--scn-out").map(|p| std::io::BufWriter::new(std::fs::File::create(p).unwrap()));
            let mut run = 0u64;
            for (ln, line) in std::io::BufReader::new(inp).lines().enumerate() {
                let line = line.unwrap();
                if line.trim().is_empty() {
                    continue;
                }
                let ops: Vec<serde_json::Value> = serde_json::from_str(&line).expect("ops");
                let mut sc = Scenario { kind: kind.clone(), ctor: "with_capacity".into(), tail: "drain".into(), ..Default::default() };
                sc.id = format!("ord:{}:{}", kind, ln + 1);
                sc.cap = 4;
                for o in &ops {
                    let c = o["c"].as_u64().unwrap_or(0) as u32;
                    match o["op"].as_str().unwrap_or("") {
                        "start" => {
                            let k = o["k"].as_u64().unwrap_or(4);
                            let v = o["v"].as_u64().unwrap_or(0);
                            let w = 1u64 << k;
                            // landmark + offset: values near 0 (both sides) and near the sign bit
                            let start = if v < w / 4 {
                                v
                            } else if v >= 3 * w / 4 {
                                0u64.wrapping_sub(w - v)
                            } else {
                                (1u64 << 63).wrapping_add(v).wrapping_sub(w / 2)
                            };
                            sc.start = Some(start);
                            sc.cap = (k as usize) + 1;
                        }
                        "pb" => sc.ops.push(Op::Push { c, front: false, r#try: false }),
                        "pf" => sc.ops.push(Op::Push { c, front: true, r#try: false }),
                        "complete" => sc.ops.push(Op::Complete { c }),
                        "poll" => sc.ops.push(Op::Poll { w: 1 }),
                        _ => {}
                    }
                }
                run += 1;
                run_scenario(&sc, run, hooklog);
                if let Some(s) = scn_out.as_mut() {
                    writeln!(s, "{}", serde_json::to_string(&sc).unwrap()).unwrap();
                }
                for l in world::take_log() {
                    writeln!(out, "{}", l).unwrap();
                }
            }
            println!("{{\"runs\":{}}}", run);
        }
        "run" => {
            let inp = std::fs::File::open(&args[2]).expect("open scenarios");
            let mut out = std::io::BufWriter::new(std::fs::File::create(&args[3]).expect("create trace"));
            let mut run = 0u64;
            for line in std::io::BufReader::new(inp).lines() {
                let line = line.unwrap();
                if line.trim().is_empty() {
                    continue;
                }
                let sc: Scenario = serde_json::from_str(&line).expect("scenario");
                run += 1;
                run_scenario(&sc, run, hooklog);
                for l in world::take_log() {
                    writeln!(out, "{}", l).unwrap();
                }
            }
            println!("{{\"runs\":{}}}", run);
        }
        "random" => {
            let kind = arg(&args, "--kind").unwrap_or("fub").to_string();
            let seed: u64 = arg(&args, "--seed").and_then(|s| s.parse().ok()).unwrap_or(1);
            let n: u64 = arg(&args, "--n").and_then(|s| s.parse().ok()).unwrap_or(100);
            let size = arg(&args, "--size").unwrap_or("small").to_string();
            let profile = arg(&args, "--profile").unwrap_or("mix").to_string();
            let mut out = std::io::BufWriter::new(std::fs::File::create(arg(&args, "--out").expect("--out")).unwrap());
            start_watchdog(arg(&args, "--out").unwrap().to_string(), 20);
            let mut scn_out =
                arg(&args, "--scn-out").map(|p| std::io::BufWriter::new(std::fs::File::create(p).unwrap()));
            let mut rng = randgen::Rng::new(seed ^ 0x5DEECE66D);
            let mut events = 0u64;
            for run in 1..=n {
                let mut sc = randgen::gen(&mut rng, &kind, &size, &profile);
                sc.id = format!("rnd:{}:{}:{}:{}:{}", kind, size, profile, seed, run);
                if let Some(s) = scn_out.as_mut() {
                    writeln!(s, "{}", serde_json::to_string(&sc).unwrap()).unwrap();
                    s.flush().unwrap();
                }
                run_scenario(&sc, run, hooklog);
                for l in world::take_log() {
                    events += 1;
                    writeln!(out, "{}", l).unwrap();
                }
                out.flush().unwrap();
            }
            println!("{{\"runs\":{},\"events\":{}}}", n, events);
        }
        "gate" => gatedrv::main(&args[2..]),
        _ => {
            eprintln!("unknown command");
            std::process::exit(2);
        }
    }
    let _ = write_lines;
}
