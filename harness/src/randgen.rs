//! Random and adversarial scenario generators (the harness-side drivers of the impl -> spec direction).

use crate::children::UpStep;
use crate::subject::{Op, Scenario};
use crate::world::{Act, Step};

pub struct Rng(u64);
impl Rng {
    pub fn new(seed: u64) -> Rng {
        Rng(seed.wrapping_mul(0x9E3779B97F4A7C15) | 1)
    }
    pub fn next(&mut self) -> u64 {
        let mut x = self.0;
        x ^= x >> 12;
        x ^= x << 25;
        x ^= x >> 27;
        self.0 = x;
        x.wrapping_mul(0x2545F4914F6CDD1D)
    }
    pub fn below(&mut self, n: u64) -> u64 {
        if n == 0 {
            0
        } else {
            self.next() % n
        }
    }
    pub fn pct(&mut self, p: u64) -> bool {
        self.below(100) < p
    }
    pub fn pick<T: Copy>(&mut self, v: &[T]) -> T {
        v[self.below(v.len() as u64) as usize]
    }
}

fn is_stream_kind(k: &str) -> bool {
    matches!(k, "mb" | "mu")
}

/// script of one child: some pending answers (with wakes), then maybe the final answer
fn child_script(rng: &mut Rng, kind: &str, me: u32, others: u32, selfwake_pct: u64) -> Vec<Step> {
    let mut v = vec![];
    let n = rng.below(4);
    let stream = is_stream_kind(kind);
    for _ in 0..n {
        let mut acts = vec![];
        if rng.pct(selfwake_pct) {
            acts.push(Act::SelfWake);
        }
        if others > 0 && rng.pct(15) {
            let o = 1 + rng.below(others as u64) as u32;
            if o != me {
                acts.push(Act::Wake(o));
            }
        }
        let resp = if stream && rng.pct(50) { "I" } else { "P" };
        v.push(Step { acts, resp: resp.into() });
    }
    if rng.pct(60) {
        let mut acts = vec![];
        if rng.pct(20) {
            acts.push(Act::SelfWake);
        }
        let resp = if stream {
            "E"
        } else if kind.starts_with('t') && rng.pct(25) {
            "X"
        } else {
            "R"
        };
        v.push(Step { acts, resp: resp.into() });
    }
    v
}

pub fn gen(rng: &mut Rng, kind: &str, size: &str, profile: &str) -> Scenario {
    match profile {
        "starve" => return gen_starve(rng, kind, size),
        "oscillate" => return gen_oscillate(rng, kind, size),
        "stale" => return gen_stale(rng, kind, size),
        "headofline" => return gen_headofline(rng, kind, size),
        "budget" => return gen_budget(rng, kind, size),
        "churn" => return gen_churn(rng, kind, size),
        "limit0" => return gen_limit0(rng, kind, size),
        "manygroups" => return gen_manygroups(rng, kind, size),
        "stale_empty" => {
            // everything finishes and is yielded; then the kept (stale) wakers of all of them fire: the collection is
            // empty and must say so, however many stale entries its ready queue holds (more than the poll budget)
            let n = rng.pick(&[62u32, 70, 130, 200]);
            let mut sc = gen_stale_n(rng, kind, n);
            let last = n + 1;
            sc.scripts.insert(last, vec![Step { acts: vec![], resp: "P".into() }, Step { acts: vec![], resp: if is_stream_kind(kind) { "E" } else { "R" }.into() }]);
            // finish the survivor too, before the stale wakers fire: insert its wake and two polls in front of them
            let pos = sc.ops.iter().rposition(|o| matches!(o, Op::Poll { .. })).map(|i| i + 1).unwrap_or(sc.ops.len());
            sc.ops.insert(pos, Op::Wake { c: last, by_val: false });
            sc.ops.insert(pos + 1, Op::Poll { w: 1 });
            sc.ops.insert(pos + 2, Op::Poll { w: 1 });
            for c in 1..=n {
                sc.ops.push(Op::Wake { c, by_val: false });
            }
            sc.ops.push(Op::Poll { w: 1 });
            sc.ops.push(Op::Poll { w: 1 });
            sc.tail = "drain".into();
            return sc;
        }
        "stale_big" => {
            let n = 190 + rng.below(120) as u32;
            return gen_stale_n(rng, kind, n);
        }
        "frontchurn" => return gen_frontchurn(rng, kind, size),
        "forget" => {
            // children let go of the waker they kept, without invoking it; nobody can announce their completion any more,
            // so the run ends with a quiet phase or a drop instead of a drain
            let mut sc = gen(rng, kind, size, "mix");
            let ids: Vec<u32> = sc.scripts.keys().copied().filter(|c| *c < 100_000).collect();
            if !ids.is_empty() {
                let k = 1 + rng.below(3);
                for _ in 0..k {
                    let c = ids[rng.below(ids.len() as u64) as usize];
                    let pos = rng.below(sc.ops.len() as u64 + 1) as usize;
                    sc.ops.insert(pos, Op::Forget { c });
                    if rng.pct(60) {
                        sc.ops.insert((pos + 1).min(sc.ops.len()), Op::Poll { w: 1 });
                    }
                }
            }
            // no extra clones around: the forgotten waker may be the last outstanding one of its block
            sc.ops.retain(|o| !matches!(o, Op::Wclone { .. }));
            sc.tail = if rng.pct(75) { "quietonly" } else { "drop" }.into();
            sc.final_wake = false;
            return sc;
        }
        "burst" => return gen_burst(rng, kind),
        "adbudget" => return gen_adbudget(rng, kind),
        "creep" => return gen_creep(rng, kind, size),
        "hugepeak" => return gen_hugepeak(rng, kind),
        "zerocap" => {
            // an adapter with limit 0 never pulls anything (C09 starts at n = 1); it must at least stay silent (C14)
            let mut sc = gen_adapter(rng, kind, size);
            sc.cap = 0;
            sc.tail = if rng.pct(75) { "quietonly" } else { "drop" }.into();
            return sc;
        }
        "orphans" => {
            // the children never keep the waker they are polled with: once pending they can never be woken, the
            // collection must fall silent (no drain: nobody could announce a completion)
            let mut sc = gen(rng, kind, size, "mix");
            sc.nokeep = true;
            for st in sc.scripts.values_mut() {
                for x in st.iter_mut() {
                    x.acts.retain(|a| matches!(a, Act::SelfWake));
                }
            }
            sc.ops.retain(|o| !matches!(o, Op::Wake { .. } | Op::Complete { .. } | Op::Wclone { .. } | Op::Wdrop { .. }));
            sc.tail = if rng.pct(75) { "quietonly" } else { "drop" }.into();
            sc.final_wake = false;
            return sc;
        }
        "hugehint" => {
            // an honest upstream that holds more than usize::MAX items (virtual ones that are "not ready yet" follow the
            // scripted ones): its upper bound is None until the count fits, then exact (children.rs, hint "huge")
            let mut sc = gen_adapter(rng, kind, size);
            sc.up.retain(|u| u.resp != "E");
            sc.hint = "huge".into();
            sc.tail = ["quietonly", "drop", "none"][rng.below(3) as usize].into();
            return sc;
        }
        "bigcap" => {
            // concurrency limits far above the sizes of the other profiles (n = 1025 ...): every item pulled stays pending
            let n = [1025u32, 1100, 1500, 2049][rng.below(4) as usize];
            let extra = 1 + rng.below(8) as u32;
            let mut sc = Scenario { kind: kind.into(), cap: n as usize, ..Default::default() };
            for c in 1..=(n + extra) {
                sc.up.push(UpStep { resp: "I".into(), c });
                sc.scripts.insert(c, vec![Step { acts: vec![], resp: "P".into() }, Step { acts: vec![], resp: "R".into() }]);
            }
            sc.up.push(UpStep { resp: "E".into(), c: 0 });
            sc.hint = "exact".into();
            sc.ops.push(Op::Poll { w: 1 });
            sc.ops.push(Op::Poll { w: 1 });
            sc.tail = if rng.pct(50) { "drop" } else { "drain" }.into();
            return sc;
        }
        "panic" | "dpanic" => {
            // a mixed scenario in which one child panics in a poll ("panic") or one child's destructor panics ("dpanic")
            let mut sc = gen(rng, kind, size, "mix");
            let ids: Vec<u32> = sc.scripts.keys().copied().filter(|c| *c < 100_000).collect();
            if !ids.is_empty() {
                let c = ids[rng.below(ids.len() as u64) as usize];
                if profile == "panic" {
                    let st = sc.scripts.get_mut(&c).unwrap();
                    let pos = rng.below(st.len() as u64 + 1) as usize;
                    st.insert(pos, Step { acts: vec![], resp: "!".into() });
                } else if !sc.ctor.starts_with("plain") && sc.ctor != "zst" {
                    sc.drop_panic.push(c);
                }
            }
            return sc;
        }
        _ => {}
    }
    match kind {
        "bu" | "bo" | "tbu" | "tbo" | "fe" => gen_adapter(rng, kind, size),
        "ja" | "tja" => gen_join(rng, kind, size),
        _ => gen_coll(rng, kind, size),
    }
}

fn tail(rng: &mut Rng) -> String {
    let r = rng.below(100);
    if r < 60 {
        "drain"
    } else if r < 80 {
        "quiet"
    } else {
        "drop"
    }
    .to_string()
}

fn ordered_start(rng: &mut Rng) -> Option<u64> {
    let d = rng.below(9);
    match rng.below(8) {
        0 => None,
        1 => Some(d),
        2 => Some(u64::MAX - d),
        3 => Some((1u64 << 63) + d),
        4 => Some((1u64 << 63) - 1 - d),
        5 => Some(rng.next()),
        6 => Some((1u64 << 62) + d),
        _ => Some(0),
    }
}

fn gen_coll(rng: &mut Rng, kind: &str, size: &str) -> Scenario {
    let real = size == "real";
    let bounded = matches!(kind, "fub" | "fob" | "mb");
    let ordered = matches!(kind, "fob" | "fo");
    let mut sc = Scenario { kind: kind.into(), ..Default::default() };
    let caps_small = [0usize, 1, 1, 2, 2, 3, 4];
    let caps_real = [0usize, 1, 2, 5, 31, 32, 33, 60, 61, 62, 64, 65, 100, 130, 200, 300];
    sc.cap = if real { rng.pick(&caps_real) } else { rng.pick(&caps_small) };
    let nchild: u32 = if real {
        1 + rng.below(if bounded { (2 * sc.cap as u64 + 4).min(500) } else { 300 }) as u32
    } else {
        rng.below(9) as u32
    };
    sc.ctor = match (bounded, rng.below(4)) {
        (true, 0) => "from_iter",
        (true, _) => "with_capacity",
        (false, 0) => "new",
        (false, 1) => "from_iter",
        (false, _) => "with_capacity",
    }
    .into();
    if kind == "mb" {
        sc.ctor = "from_iter".into();
    }
    if sc.ctor == "from_iter" && rng.pct(50) {
        sc.ctor = "from_iter_lazy".into();
    }
    if !bounded && sc.ctor == "with_capacity" && !real {
        sc.cap = 1 + rng.below(3) as usize;
    }
    let mut next: u32 = 1;
    if sc.ctor.starts_with("from_iter") {
        let k = if bounded { sc.cap as u32 } else { rng.below(nchild as u64 + 1) as u32 };
        let k = k.min(if real { 400 } else { 6 });
        for _ in 0..k {
            sc.init.push(next);
            next += 1;
        }
        if bounded {
            sc.cap = sc.init.len();
        }
    }
    if ordered {
        sc.start = ordered_start(rng);
    }
    let total = nchild.max(next - 1);
    let selfwake = if rng.pct(30) { 60 } else { 20 };
    for c in 1..=total + 2 {
        sc.scripts.insert(c, child_script(rng, kind, c, total, selfwake));
        if is_stream_kind(kind) {
            sc.stream_left.insert(c, rng.below(3) as u32);
        }
    }
    let nops = if real { 20 + rng.below(400) } else { 4 + rng.below(36) };
    let wpoll = 30 + rng.below(40);
    for _ in 0..nops {
        let r = rng.below(100);
        if r < wpoll {
            let w = if rng.pct(80) { 1 } else { 2 + rng.below(2) as u32 };
            sc.ops.push(Op::Poll { w });
        } else if r < wpoll + 25 && next <= total + 2 {
            let front = ordered && rng.pct(35);
            sc.ops.push(Op::Push { c: next, front, r#try: rng.pct(50) });
            next += 1;
        } else if r < wpoll + 45 && next > 1 {
            let c = 1 + rng.below((next - 1) as u64) as u32;
            sc.ops.push(Op::Wake { c, by_val: rng.pct(30) });
        } else if r < wpoll + 50 && next > 1 {
            let c = 1 + rng.below((next - 1) as u64) as u32;
            sc.ops.push(if rng.pct(60) { Op::Wclone { c } } else { Op::Wdrop { c } });
        } else if r < wpoll + 53 {
            sc.ops.push(Op::Move);
        } else {
            sc.ops.push(Op::Poll { w: 1 });
        }
    }
    sc.tail = tail(rng);
    sc.final_wake = rng.pct(25);
    sc
}

fn gen_adapter(rng: &mut Rng, kind: &str, size: &str) -> Scenario {
    let real = size == "real";
    let mut sc = Scenario { kind: kind.into(), ..Default::default() };
    sc.cap = if real { rng.pick(&[1usize, 2, 3, 8, 64]) } else { 1 + rng.below(3) as usize };
    let len = if real { rng.below(200) } else { rng.below(9) };
    let tryk = kind.starts_with('t');
    let mut c = 0u32;
    for _ in 0..len {
        let r = rng.below(100);
        if r < 65 {
            c += 1;
            sc.up.push(UpStep { resp: "I".into(), c });
        } else if r < 85 {
            sc.up.push(UpStep { resp: "P".into(), c: 0 });
        } else if tryk {
            c += 1;
            sc.up.push(UpStep { resp: "X".into(), c: 100_000 + c });
        } else {
            sc.up.push(UpStep { resp: "P".into(), c: 0 });
        }
    }
    if rng.pct(80) {
        sc.up.push(UpStep { resp: "E".into(), c: 0 });
    }
    sc.hint = rng.pick(&["exact", "none", "loose", "lower"]).into();
    let selfwake = if rng.pct(30) { 50 } else { 15 };
    for id in 1..=c {
        let mut s = child_script(rng, kind, id, c, selfwake);
        if kind == "fe" {
            for st in s.iter_mut() {
                if st.resp == "X" {
                    st.resp = "R".into();
                }
            }
        }
        sc.scripts.insert(id, s);
    }
    let nops = if real { 10 + rng.below(300) } else { 3 + rng.below(25) };
    for _ in 0..nops {
        let r = rng.below(100);
        if r < 60 {
            sc.ops.push(Op::Poll { w: if rng.pct(85) { 1 } else { 2 } });
        } else if r < 85 && c > 0 {
            sc.ops.push(Op::Wake { c: 1 + rng.below(c as u64) as u32, by_val: rng.pct(30) });
        } else if r < 95 {
            sc.ops.push(Op::UpWake);
        } else {
            sc.ops.push(Op::Move);
        }
    }
    sc.tail = tail(rng);
    sc
}

fn gen_join(rng: &mut Rng, kind: &str, size: &str) -> Scenario {
    let real = size == "real";
    let mut sc = Scenario { kind: kind.into(), ctor: "from_iter".into(), ..Default::default() };
    if rng.pct(40) {
        sc.ctor = "from_iter_lazy".into();
    }
    let n = if real { rng.below(120) as u32 } else { rng.below(6) as u32 };
    if n % 4 == 3 {
        // children without drop glue (the join cannot be observed dropping them; see children.rs)
        sc.ctor = "plain".into();
    } else if n % 4 == 1 {
        // outputs without drop glue; for join_all also zero-sized ones
        sc.ctor = if kind == "ja" && n % 8 == 5 { "zst" } else { "plainout" }.into();
    }
    for c in 1..=n {
        sc.init.push(c);
        let mut s = child_script(rng, kind, c, n, 20);
        if kind == "ja" {
            for st in s.iter_mut() {
                if st.resp == "X" {
                    st.resp = "R".into();
                }
            }
        }
        sc.scripts.insert(c, s);
    }
    sc.cap = n as usize;
    let nops = if real { 5 + rng.below(200) } else { 2 + rng.below(14) };
    for _ in 0..nops {
        let r = rng.below(100);
        if r < 60 || n == 0 {
            sc.ops.push(Op::Poll { w: if rng.pct(85) { 1 } else { 2 } });
        } else {
            sc.ops.push(Op::Wake { c: 1 + rng.below(n as u64) as u32, by_val: rng.pct(30) });
        }
    }
    // continuation after the first Ready: the drain keeps polling until it resolves; poll again afterwards
    sc.tail = rng.pick(&["drain", "drain", "repoll", "drop"]).into();
    sc
}

/// C13: a victim next to permanently ready sources / perpetual self-wakers / a churn of ready futures
fn gen_starve(rng: &mut Rng, kind: &str, size: &str) -> Scenario {
    let real = size == "real";
    let mut sc = Scenario { kind: kind.into(), ctor: "with_capacity".into(), ..Default::default() };
    let stream = is_stream_kind(kind);
    let bounded = matches!(kind, "fub" | "fob" | "mb");
    sc.cap = if real { rng.pick(&[2usize, 32, 33, 64, 100, 130]) } else { 1 + rng.below(3) as usize };
    // populations below, at and above the group boundaries and the multiples of the per-poll budget (61)
    // (cycled, not drawn: every population is exercised once every 17 runs)
    static NEXT: std::sync::atomic::AtomicUsize = std::sync::atomic::AtomicUsize::new(0);
    let pops = [61u32, 123, 1, 2, 31, 32, 33, 40, 59, 60, 62, 63, 70, 100, 121, 122, 124];
    let busy: u32 = if real {
        pops[NEXT.fetch_add(1, std::sync::atomic::Ordering::Relaxed) % pops.len()]
    } else {
        1 + rng.below(4) as u32
    };
    let busy = if bounded { busy.min(sc.cap.saturating_sub(1) as u32).max(1) } else { busy };
    if bounded {
        sc.cap = sc.cap.max(busy as usize + 1);
    }
    // position of the victim among the pushes
    let vpos = rng.below(busy as u64 + 1) as u32;
    let total = busy + 1;
    let victim = vpos + 1;
    // more polls than the wait bound of the trace machine (3 * peak + 16), so that starvation cannot hide
    let rounds = 3 * total as usize + 24;
    for c in 1..=total {
        if c == victim {
            // polled once (keeps its waker), woken later, then answers ready
            sc.scripts.insert(c, vec![Step { acts: vec![], resp: "P".into() }, Step { acts: vec![], resp: if stream { "E" } else { "R" }.into() }]);
        } else if stream {
            // permanently ready source
            sc.scripts.insert(c, (0..rounds + 8).map(|_| Step { acts: vec![], resp: "I".into() }).collect());
        } else {
            // perpetual self-waker
            sc.scripts.insert(c, (0..rounds + 8).map(|_| Step { acts: vec![Act::SelfWake], resp: "P".into() }).collect());
        }
        if stream {
            sc.stream_left.insert(c, 0);
        }
    }
    if matches!(kind, "mb" | "ja" | "tja") {
        sc.ctor = "from_iter".into();
        sc.init = (1..=total).collect();
        sc.cap = total as usize;
    } else {
        for c in 1..=total {
            sc.ops.push(Op::Push { c, front: false, r#try: false });
        }
    }
    // let everybody be polled once
    for _ in 0..(total as usize / 30 + 3) {
        sc.ops.push(Op::Poll { w: 1 });
    }
    sc.ops.push(Op::Wake { c: victim, by_val: false });
    for _ in 0..rounds {
        sc.ops.push(Op::Poll { w: 1 });
    }
    sc.tail = "drain".into();
    sc
}

/// C13 (unbounded futures): a churn of freshly pushed ready futures next to a woken victim
pub fn gen_churn(rng: &mut Rng, kind: &str, _size: &str) -> Scenario {
    let mut sc = Scenario { kind: kind.into(), ctor: "with_capacity".into(), ..Default::default() };
    sc.cap = 1 + rng.below(2) as usize;
    let filler = sc.cap as u32 + rng.below(3) as u32;
    let victim = 1u32;
    sc.scripts.insert(victim, vec![Step { acts: vec![], resp: "P".into() }, Step { acts: vec![], resp: "R".into() }]);
    sc.ops.push(Op::Push { c: victim, front: false, r#try: false });
    let mut next = 2;
    for _ in 0..filler {
        sc.scripts.insert(next, vec![Step { acts: vec![], resp: "P".into() }]);
        sc.ops.push(Op::Push { c: next, front: false, r#try: false });
        next += 1;
    }
    sc.ops.push(Op::Poll { w: 1 });
    sc.ops.push(Op::Wake { c: victim, by_val: false });
    for _ in 0..60 {
        sc.scripts.insert(next, vec![Step { acts: vec![], resp: "R".into() }]);
        sc.ops.push(Op::Push { c: next, front: false, r#try: false });
        sc.ops.push(Op::Poll { w: 1 });
        next += 1;
    }
    sc.tail = "drain".into();
    sc
}

/// C18: long fill / drain / refill oscillations with waker clone and drop storms
/// ordered kinds: a head that stays pending, a backlog of outputs parked behind it, and many rounds of
/// `push_front(ready)`; poll - every round takes the front position below its base and back (two re-basings of the
/// position counters with a non-empty backlog and futures in flight), the population never exceeds its first peak
fn gen_frontchurn(rng: &mut Rng, kind: &str, size: &str) -> Scenario {
    let real = size == "real";
    let mut sc = Scenario { kind: kind.into(), ..Default::default() };
    let bounded = kind == "fob";
    let nback: u32 = if real { 2 + rng.below(40) as u32 } else { 1 + rng.below(4) as u32 };
    let rounds: u32 = if real { 30 + rng.below(90) as u32 } else { 2 + rng.below(6) as u32 };
    sc.ctor = if bounded { "with_capacity" } else if rng.pct(50) { "new" } else { "with_capacity" }.into();
    sc.cap = if bounded { (nback + 2) as usize } else { 1 + rng.below(4) as usize };
    sc.start = ordered_start(rng);
    let mut next = 1u32;
    // the head of line and a few more that never complete before the drain; the others complete at their first poll
    for i in 0..nback {
        let stuck = i == 0 || rng.pct(30);
        sc.scripts.insert(next, if stuck { vec![] } else { vec![Step { acts: vec![], resp: "R".into() }] });
        sc.ops.push(Op::Push { c: next, front: false, r#try: false });
        next += 1;
    }
    sc.ops.push(Op::Poll { w: 1 });
    for _ in 0..rounds {
        sc.scripts.insert(next, vec![Step { acts: vec![], resp: "R".into() }]);
        sc.ops.push(Op::Push { c: next, front: true, r#try: bounded && rng.pct(50) });
        next += 1;
        sc.ops.push(Op::Poll { w: 1 });
        if rng.pct(20) {
            sc.ops.push(Op::Poll { w: 1 });
        }
    }
    sc.tail = tail(rng);
    sc
}

/// joins and bounded merges: populations around the group size (32) and the per-poll budget (61) of which a whole batch
/// finishes inside one poll call (the joins collect, the merge sources end) - optionally after a few finished earlier -
/// then the run is cut (drop), polled on, or drained
fn gen_burst(rng: &mut Rng, kind: &str) -> Scenario {
    let mut sc = Scenario { kind: kind.into(), ctor: "from_iter".into(), ..Default::default() };
    let stream = is_stream_kind(kind);
    let batch: u32 = if stream && rng.pct(35) { rng.pick(&[183u32, 184, 200, 250]) } else { rng.pick(&[31u32, 32, 33, 60, 61, 62, 63, 122, 123]) };
    let early: u32 = if rng.pct(50) { 0 } else { 1 + rng.below(12) as u32 };
    // (big batches only without stragglers, and no drain after a re-use: a drain fires the kept wakers of everything that
    //  has finished, which is the history of the known finding about stale wakers and the poll budget)
    let late: u32 = if batch > 150 || rng.pct(60) { 0 } else { 1 + rng.below(3) as u32 };
    let n = early + batch + late;
    sc.cap = n as usize;
    let done = if stream { "E" } else { "R" };
    for c in 1..=n {
        sc.init.push(c);
        let mut st = vec![];
        if c > early {
            // the batch and the late ones are pending at first; the batch is completed by the environment in one go
            st.push(Step { acts: vec![], resp: "P".into() });
        }
        if c <= early {
            st.push(Step { acts: vec![], resp: done.into() });
        }
        sc.scripts.insert(c, st);
        if stream {
            sc.stream_left.insert(c, 0);
        }
    }
    // (61 children are polled per call: everybody gets its first poll before the batch is completed)
    for _ in 0..n / 61 + 2 {
        sc.ops.push(Op::Poll { w: 1 });
    }
    for c in early + 1..=early + batch {
        sc.ops.push(Op::Complete { c });
    }
    sc.ops.push(Op::Poll { w: 1 });
    if rng.pct(50) {
        sc.ops.push(Op::Poll { w: 1 });
    }
    if stream && late == 0 && rng.pct(60) {
        // the drained merge is used again: one more source, which stays pending
        sc.scripts.insert(n + 1, vec![]);
        sc.stream_left.insert(n + 1, 1);
        sc.ops.push(Op::Push { c: n + 1, front: false, r#try: false });
        sc.ops.push(Op::Poll { w: 1 });
        sc.tail = "quietonly".into();
        return sc;
    }
    sc.tail = match rng.below(3) {
        0 => "drop",
        1 => "drain",
        _ => "quiet",
    }
    .into();
    if !stream && late > 0 && rng.pct(50) {
        // a join that still waits for stragglers is cancelled with a whole batch of outputs parked
        sc.tail = "drop".into();
    }
    sc
}

/// adapters: more futures in flight than the per-poll budget (61), all of them woken at once while upstream - which had
/// answered Pending - has become ready again: the poll that stops at the budget and the polls that continue it must
/// still ask upstream
fn gen_adbudget(rng: &mut Rng, kind: &str) -> Scenario {
    let mut sc = Scenario { kind: kind.into(), ..Default::default() };
    let cap = rng.pick(&[64usize, 100, 130]);
    sc.cap = cap;
    let first = cap as u32 - 1 - rng.below(3) as u32;
    let mut c = 0u32;
    for _ in 0..first {
        c += 1;
        sc.up.push(UpStep { resp: "I".into(), c });
    }
    sc.up.push(UpStep { resp: "P".into(), c: 0 });
    for _ in 0..4 {
        c += 1;
        sc.up.push(UpStep { resp: "I".into(), c });
    }
    sc.up.push(UpStep { resp: "E".into(), c: 0 });
    sc.hint = "exact".into();
    for id in 1..=c {
        sc.scripts.insert(id, vec![Step { acts: vec![], resp: "P".into() }, Step { acts: vec![], resp: "P".into() }, Step { acts: vec![], resp: "R".into() }]);
    }
    for _ in 0..first / 61 + 2 {
        sc.ops.push(Op::Poll { w: 1 });
    }
    for id in 1..=first {
        sc.ops.push(Op::Wake { c: id, by_val: false });
    }
    sc.ops.push(Op::UpWake);
    for _ in 0..4 {
        sc.ops.push(Op::Poll { w: 1 });
    }
    sc.tail = "drain".into();
    sc
}

/// growable kinds: the peak creeps up by one per round (round r holds r children; all but the oldest finish at once and -
/// in the ordered kinds - wait behind it in the backlog, then the oldest is completed and the collection drained):
/// anything that is re-sized to exactly what is needed allocates once per round instead of once per doubling
fn gen_creep(rng: &mut Rng, kind: &str, size: &str) -> Scenario {
    let real = size == "real";
    let stream = is_stream_kind(kind);
    let mut sc = Scenario { kind: kind.into(), ..Default::default() };
    sc.ctor = if rng.pct(50) { "new" } else { "with_capacity" }.into();
    sc.cap = 1 + rng.below(4) as usize;
    let rounds: u32 = if real { 50 + rng.below(40) as u32 } else { 3 + rng.below(6) as u32 };
    let done = if stream { "E" } else { "R" };
    let mut next = 1u32;
    for r in 2..=rounds {
        let head = next;
        for i in 0..r {
            sc.scripts.insert(next, if i == 0 { vec![] } else { vec![Step { acts: vec![], resp: done.into() }] });
            if stream {
                sc.stream_left.insert(next, 0);
            }
            sc.ops.push(Op::Push { c: next, front: false, r#try: false });
            next += 1;
        }
        sc.ops.push(Op::Poll { w: 1 });
        sc.ops.push(Op::Complete { c: head });
        for _ in 0..r + 1 {
            sc.ops.push(Op::Poll { w: 1 });
        }
    }
    sc.tail = "drain".into();
    sc
}

/// a population far above the other profiles (2100 - 2300 children at once, past any plausible internal size limit),
/// filled and drained to the end a dozen times
fn gen_hugepeak(rng: &mut Rng, kind: &str) -> Scenario {
    let stream = is_stream_kind(kind);
    let mut sc = Scenario { kind: kind.into(), ctor: "new".into(), ..Default::default() };
    let peak = 2100 + rng.below(200) as u32;
    let rounds = 16 + rng.below(4);
    let done = if stream { "E" } else { "R" };
    let mut next = 1u32;
    for _ in 0..rounds {
        for _ in 0..peak {
            sc.scripts.insert(next, vec![Step { acts: vec![], resp: done.into() }]);
            if stream {
                sc.stream_left.insert(next, 0);
            }
            sc.ops.push(Op::Push { c: next, front: false, r#try: false });
            next += 1;
        }
        let polls = if stream { 2 } else { peak + 1 };
        for _ in 0..polls {
            sc.ops.push(Op::Poll { w: 1 });
        }
    }
    sc.tail = "drain".into();
    sc
}

fn gen_oscillate(rng: &mut Rng, kind: &str, size: &str) -> Scenario {
    let real = size == "real";
    let mut sc = Scenario { kind: kind.into(), ..Default::default() };
    let bounded = matches!(kind, "fub" | "fob" | "mb");
    let stream = is_stream_kind(kind);
    sc.ctor = if bounded { "with_capacity" } else if rng.pct(50) { "new" } else { "with_capacity" }.into();
    let peak: u32 = if real { rng.pick(&[1u32, 5, 33, 70, 150, 300]) } else { 1 + rng.below(6) as u32 };
    let peak = if real && rng.pct(20) { rng.pick(&[100u32, 150]) } else { peak };
    sc.cap = if bounded { peak as usize } else { 1 + rng.below(4) as usize };
    if kind == "mb" {
        sc.ctor = "from_iter".into();
        sc.cap = peak as usize;
    }
    // (half of the real-size runs oscillate long enough for a per-cycle allocation to exceed the logarithmic bound)
    // and every fifth one runs for 150-250 cycles at a peak of 100-150 (three groups), where even one allocation per few cycles shows)
    let long = real && (peak == 100 || (peak == 150 && rng.pct(50)));
    let cycles = if long { 150 + rng.below(100) } else if real { if rng.pct(50) { 6 + rng.below(10) } else { 40 + rng.below(30) } } else { 2 + rng.below(4) };
    let mut next = 1u32;
    let ready = |_c: u32| vec![Step { acts: vec![], resp: if stream { "E" } else { "R" }.into() }];
    if kind == "mb" {
        for _ in 0..peak {
            sc.init.push(next);
            sc.scripts.insert(next, ready(next));
            next += 1;
        }
    }
    // "gated" rounds (a fifth of the runs of the growable kinds): the first group is filled exactly (or one short / one over)
    // with children that complete at once, a few more stay pending behind a gate; the ready ones are drained, then the
    // gated ones are completed one by one, the collection is polled to its end and the next round starts from empty
    if !bounded && rng.pct(20) {
        let first = if sc.ctor == "new" { 32u32 } else { sc.cap as u32 };
        let rounds = 24 + rng.below(30);
        for _ in 0..rounds {
            let p = (first + rng.below(3) as u32).saturating_sub(1).max(1);
            let g = 1 + rng.below(3) as u32;
            let mut gated = vec![];
            for i in 0..p + g {
                let is_gated = i >= p;
                sc.scripts.insert(next, if is_gated { vec![] } else { ready(next) });
                sc.ops.push(Op::Push { c: next, front: false, r#try: false });
                if is_gated {
                    gated.push(next);
                }
                next += 1;
            }
            for _ in 0..p {
                sc.ops.push(Op::Poll { w: 1 });
            }
            sc.ops.push(Op::Poll { w: 1 });
            for c in gated {
                sc.ops.push(Op::Complete { c });
                sc.ops.push(Op::Poll { w: 1 });
            }
            sc.ops.push(Op::Poll { w: 1 });
        }
        sc.tail = "drain".into();
        return sc;
    }
    // first-in-first-out turnover (half of the runs of the growable kinds): the children stay pending until the environment
    // completes them, oldest first, so that the older groups drain completely while the newest ones still hold futures
    if !bounded && rng.pct(50) {
        let mut q: std::collections::VecDeque<u32> = std::collections::VecDeque::new();
        // a sliding window (a few completions per cycle, refilled at once) or larger gulps
        let window = rng.pct(60);
        let cycles = if window { cycles * 6 } else { cycles };
        for _cy in 0..cycles {
            let fill = if window || rng.pct(70) { peak } else { 1 + rng.below(peak as u64) as u32 };
            while (q.len() as u32) < fill {
                sc.scripts.insert(next, vec![]);
                sc.ops.push(Op::Push { c: next, front: false, r#try: false });
                q.push_back(next);
                next += 1;
            }
            sc.ops.push(Op::Poll { w: 1 });
            let k = if window { (1 + rng.below(8) as usize).min(q.len()) } else if rng.pct(30) { q.len() } else { 1 + rng.below(q.len() as u64) as usize };
            for _ in 0..k {
                let c = q.pop_front().unwrap();
                sc.ops.push(Op::Complete { c });
                sc.ops.push(Op::Poll { w: 1 });
            }
            if q.is_empty() {
                sc.ops.push(Op::Poll { w: 1 });
            }
        }
        sc.tail = "drain".into();
        return sc;
    }
    // `live` children are held at the start of a cycle; fill up to `fill`, then drain down to `drain_to`
    let mut live: u32 = if kind == "mb" { peak } else { 0 };
    for _cy in 0..cycles {
        let fill = if rng.pct(70) { peak } else { 1 + rng.below(peak as u64) as u32 };
        while live < fill {
            sc.scripts.insert(next, ready(next));
            sc.ops.push(Op::Push { c: next, front: false, r#try: bounded });
            if rng.pct(10) {
                sc.ops.push(Op::Wclone { c: next.saturating_sub(1).max(1) });
            }
            next += 1;
            live += 1;
        }
        let drain_to = if rng.pct(60) { 0 } else { rng.below(live as u64) as u32 };
        while live > drain_to {
            sc.ops.push(Op::Poll { w: 1 });
            live -= 1;
            if rng.pct(10) {
                sc.ops.push(Op::Wdrop { c: 1 + rng.below(next as u64) as u32 });
            }
        }
        if drain_to == 0 {
            sc.ops.push(Op::Poll { w: 1 });
        }
    }
    sc.tail = "drain".into();
    sc
}

/// C14 corner / C12: many stale wakers fired on vacant or reused slots, then a quiet phase
fn gen_stale(rng: &mut Rng, kind: &str, size: &str) -> Scenario {
    let real = size == "real";
    let n: u32 = if real { rng.pick(&[10u32, 50, 62, 100, 130, 180]) } else { 2 + rng.below(4) as u32 };
    gen_stale_n(rng, kind, n)
}

/// many small groups of an unbounded collection alive at once (first capacity 1: 1, 2, 4, 8, 16 ...), everybody pending
fn gen_manygroups(rng: &mut Rng, kind: &str, _size: &str) -> Scenario {
    let mut sc = Scenario { kind: kind.into(), ctor: "with_capacity".into(), cap: 1, ..Default::default() };
    let n = 16 + rng.below(50) as u32;
    let stream = is_stream_kind(kind);
    for c in 1..=n {
        let mut st = vec![Step { acts: vec![], resp: "P".into() }, Step { acts: vec![], resp: "P".into() }];
        if rng.pct(30) {
            st.push(Step { acts: vec![], resp: if stream { "E" } else { "R" }.into() });
        }
        sc.scripts.insert(c, st);
        if stream {
            sc.stream_left.insert(c, 0);
        }
        sc.ops.push(Op::Push { c, front: false, r#try: false });
    }
    for _ in 0..3 {
        sc.ops.push(Op::Poll { w: 1 });
    }
    for _ in 0..rng.below(6) {
        let c = 1 + rng.below(n as u64) as u32;
        sc.ops.push(Op::Wake { c, by_val: false });
        sc.ops.push(Op::Poll { w: if rng.pct(70) { 1 } else { 2 } });
    }
    sc.tail = if rng.pct(70) { "quiet" } else { "drain" }.into();
    sc
}

/// documented limit 0 of for_each_concurrent ("no limit")
fn gen_limit0(rng: &mut Rng, kind: &str, _size: &str) -> Scenario {
    let mut sc = Scenario { kind: kind.into(), cap: 0, ..Default::default() };
    let len = 1 + rng.below(4) as u32;
    for c in 1..=len {
        sc.up.push(UpStep { resp: "I".into(), c });
        sc.scripts.insert(c, vec![Step { acts: vec![], resp: "R".into() }]);
    }
    sc.up.push(UpStep { resp: "E".into(), c: 0 });
    sc.hint = "exact".into();
    for _ in 0..4 {
        sc.ops.push(Op::Poll { w: 1 });
    }
    sc.tail = "drain".into();
    sc
}

fn gen_stale_n(rng: &mut Rng, kind: &str, n: u32) -> Scenario {
    let real = n > 8;
    let mut sc = Scenario { kind: kind.into(), ctor: "with_capacity".into(), ..Default::default() };
    let stream = is_stream_kind(kind);
    sc.cap = n as usize + 1;
    if kind == "mb" {
        sc.ctor = "from_iter".into();
        sc.init = (1..=n + 1).collect();
    }
    for c in 1..=n {
        sc.scripts.insert(c, vec![Step { acts: vec![], resp: "P".into() }, Step { acts: vec![], resp: if stream { "E" } else { "R" }.into() }]);
        if kind != "mb" {
            sc.ops.push(Op::Push { c, front: false, r#try: false });
        }
    }
    // one survivor that stays pending
    sc.scripts.insert(n + 1, vec![Step { acts: vec![], resp: "P".into() }]);
    if kind != "mb" {
        sc.ops.push(Op::Push { c: n + 1, front: false, r#try: false });
    }
    for _ in 0..(n / 50 + 3) {
        sc.ops.push(Op::Poll { w: 1 });
    }
    for c in 1..=n {
        sc.ops.push(Op::Wake { c, by_val: false });
    }
    for _ in 0..n + 4 {
        sc.ops.push(Op::Poll { w: 1 });
    }
    // all n are finished now; their wakers are stale: fire a share of them, then be quiet
    let share = if real { rng.pick(&[10u32, 50, 100]) } else { 100 };
    for c in 1..=n {
        if rng.pct(share as u64) {
            sc.ops.push(Op::Wake { c, by_val: false });
        }
    }
    sc.tail = "quiet".into();
    sc
}

/// C16: the first future never completes while the later ones complete at once
fn gen_headofline(rng: &mut Rng, kind: &str, size: &str) -> Scenario {
    let real = size == "real";
    let mut sc = Scenario { kind: kind.into(), ..Default::default() };
    sc.cap = if real { rng.pick(&[1usize, 2, 8]) } else { 1 + rng.below(3) as usize };
    let len: u32 = if real { 200 } else { 6 + rng.below(10) as u32 };
    let stall = 1 + rng.below(2) as u32;
    for c in 1..=len {
        sc.up.push(UpStep { resp: "I".into(), c });
        if c == stall {
            sc.scripts.insert(c, (0..40).map(|_| Step { acts: vec![], resp: "P".into() }).collect());
        } else {
            sc.scripts.insert(c, vec![Step { acts: vec![], resp: "R".into() }]);
        }
    }
    sc.up.push(UpStep { resp: "E".into(), c: 0 });
    sc.hint = "exact".into();
    for _ in 0..(if real { 60 } else { 12 }) {
        sc.ops.push(Op::Poll { w: 1 });
    }
    sc.tail = "drain".into();
    sc
}

/// C01/C13: more simultaneously ready children than the per-poll budget, across group boundaries
fn gen_budget(rng: &mut Rng, kind: &str, _size: &str) -> Scenario {
    let mut sc = Scenario { kind: kind.into(), ..Default::default() };
    let bounded = matches!(kind, "fub" | "fob" | "mb");
    let stream = is_stream_kind(kind);
    let n: u32 = rng.pick(&[33u32, 60, 61, 62, 65, 97, 123, 200]);
    sc.cap = if bounded { n as usize } else { 32 };
    sc.ctor = if bounded { "with_capacity" } else { "new" }.into();
    if kind == "mb" {
        sc.ctor = "from_iter".into();
        sc.init = (1..=n).collect();
    }
    let mode = rng.below(3);
    for c in 1..=n {
        let s = match mode {
            0 => vec![Step { acts: vec![], resp: "P".into() }, Step { acts: vec![], resp: "P".into() }],
            1 => vec![Step { acts: vec![Act::SelfWake], resp: "P".into() }, Step { acts: vec![], resp: "P".into() }],
            _ => vec![Step { acts: vec![], resp: "P".into() }, Step { acts: vec![], resp: if stream { "E" } else { "R" }.into() }],
        };
        sc.scripts.insert(c, s);
        if kind != "mb" {
            sc.ops.push(Op::Push { c, front: false, r#try: false });
        }
    }
    let w2 = if rng.pct(50) { 2 } else { 1 };
    for _ in 0..(n / 61 + 2) {
        sc.ops.push(Op::Poll { w: 1 });
    }
    for c in 1..=n {
        sc.ops.push(Op::Wake { c, by_val: false });
    }
    for _ in 0..(n / 61 + 2) {
        sc.ops.push(Op::Poll { w: w2 });
    }
    sc.tail = tail(rng);
    sc
}
