//! The collection / combinator under test, behind one operation vocabulary, and the scenario runner.

use crate::children::*;
use crate::world::*;
use futures_buffered::*;
use futures_core::Stream;
use serde::{Deserialize, Serialize};
use std::collections::BTreeMap;
use std::future::Future;
use std::panic::{catch_unwind, AssertUnwindSafe};
use std::pin::Pin;
use std::task::{Context, Poll};

#[derive(Clone, Debug, Serialize, Deserialize, PartialEq)]
#[serde(tag = "op", rename_all = "snake_case")]
pub enum Op {
    Push { c: u32, front: bool, r#try: bool },
    Poll { w: u32 },
    /// invoke the stored waker of child c (by reference, or a clone by value)
    Wake { c: u32, by_val: bool },
    /// the environment completes child c (it answers Ready at its next poll) and invokes its waker
    Complete { c: u32 },
    /// keep one more clone of child c's waker / drop one of the extra clones
    Wclone { c: u32 },
    Wdrop { c: u32 },
    /// the child lets go of the waker it kept (drops it without invoking it): it can no longer be woken
    Forget { c: u32 },
    /// wake the task through the waker that a pending upstream kept
    UpWake,
    /// move the collection value in memory
    Move,
    /// poll n more times without any other activity (C14)
    Quiet { n: u32 },
    DropColl,
}

#[derive(Clone, Debug, Serialize, Deserialize, Default)]
pub struct Scenario {
    pub kind: String,
    pub cap: usize,
    /// constructor variant: "new" | "with_capacity" | "from_iter" (collections); ignored otherwise
    #[serde(default)]
    pub ctor: String,
    /// start value of the ordered position counters (via the seeding hook); None = untouched
    #[serde(default)]
    pub start: Option<u64>,
    /// children given at construction (from_iter, join_all)
    #[serde(default)]
    pub init: Vec<u32>,
    pub ops: Vec<Op>,
    #[serde(default)]
    pub scripts: BTreeMap<u32, Vec<Step>>,
    /// items the merged source still produces in the drain phase
    #[serde(default)]
    pub stream_left: BTreeMap<u32, u32>,
    #[serde(default)]
    pub up: Vec<UpStep>,
    #[serde(default)]
    pub hint: String,
    /// "drain" | "quiet" (quiet phase, then drain) | "drop" (drop at once) | "none"
    #[serde(default)]
    pub tail: String,
    /// predicted events (Gen scenarios), compared for DRIFT only
    #[serde(default)]
    pub pred: Vec<serde_json::Value>,
    /// children whose destructor panics once
    #[serde(default)]
    pub drop_panic: Vec<u32>,
    /// at the very end the stored child wakers are not dropped but consumed by `wake()` (by value): the last of them
    /// releases the shared block from inside a wake call
    #[serde(default)]
    pub final_wake: bool,
    /// the children do not keep the waker they are polled with (like `future::pending()`): nobody can wake them
    #[serde(default)]
    pub nokeep: bool,
    #[serde(default)]
    pub id: String,
}

type FeFn = fn(u32) -> SUnit;
fn fe_make(id: u32) -> SUnit {
    SUnit::new(id)
}

pub enum Subject {
    Fub(FuturesUnorderedBounded<SFut>),
    Fu(FuturesUnordered<SFut>),
    Fob(FuturesOrderedBounded<SFut>),
    Fo(FuturesOrdered<SFut>),
    Mb(MergeBounded<SStream>),
    Mu(MergeUnbounded<SStreamU>),
    Bu(Pin<Box<BufferUnordered<SUp<SFut>>>>),
    Bo(Pin<Box<BufferedOrdered<SUp<SFut>>>>),
    Tbu(Pin<Box<TryBufferUnordered<SUp<Result<STry, Token>>>>>),
    Tbo(Pin<Box<TryBufferedOrdered<SUp<Result<STry, Token>>>>>),
    Fe(Pin<Box<dyn Future<Output = ()>>>),
    Ja(JoinAll<SFut>),
    JaP(JoinAll<PFut>),
    TjaP(TryJoinAll<PTry>),
    JaO(JoinAll<OFut>),
    JaZ(JoinAll<ZFut>),
    TjaO(TryJoinAll<OTry>),
    Tja(TryJoinAll<STry>),
    Dead,
}

/// the "lazy" constructors: an iterator whose size hint brackets its length loosely - lower bound 0, upper bound a few
/// more than it yields (the padding is filtered out)
fn lazy(init: &[u32]) -> impl Iterator<Item = &u32> + '_ {
    static PAD: [u32; 4] = [0; 4];
    init.iter().chain(PAD[..init.len() % 4 + 1].iter()).filter(|c| **c != 0)
}

pub struct Runner {
    /// the inputs of a join, in order
    pub inputs: Vec<u32>,
    pub final_wake: bool,
    pub subj: Subject,
    pub kind: String,
    pub received: Vec<Token>,
    pub yielded: i64,
    pub finished: bool,
}

enum PollOut {
    Pending,
    None,
    Item(Token),
    ItemErr(Token),
    Done,
    Vec(Vec<Token>),
    VecP(Vec<PTok>),
    /// zero-sized outputs: only the length can be observed (and the inputs they belong to, by position)
    VecZ(usize),
    Err(Token),
}

fn is_adapter(k: &str) -> bool {
    matches!(k, "bu" | "bo" | "tbu" | "tbo" | "fe")
}
fn is_join(k: &str) -> bool {
    matches!(k, "ja" | "tja")
}
fn is_merge(k: &str) -> bool {
    matches!(k, "mb" | "mu")
}

impl Runner {
    pub fn construct(sc: &Scenario) -> Option<Runner> {
        let kind = sc.kind.clone();
        let cap = sc.cap;
        let init = sc.init.clone();
        let ctor = sc.ctor.clone();
        let start = sc.start;
        for c in &init {
            ev(format!(r#"{{"e":"push_b","c":{}}}"#, c));
        }
        let r = catch_unwind(AssertUnwindSafe(|| {
            let _c = InCrate::enter();
            match kind.as_str() {
                "fub" => {
                    if ctor == "from_iter_lazy" {
                        Subject::Fub(lazy(&init).map(|c| SFut::new(*c)).collect())
                    } else if ctor == "from_iter" {
                        Subject::Fub(init.iter().map(|c| SFut::new(*c)).collect())
                    } else {
                        Subject::Fub(FuturesUnorderedBounded::new(cap))
                    }
                }
                "fu" => match ctor.as_str() {
                    // (`new` and `Default` are the same request; the capacity field is unused here and picks one)
                    "new" if cap % 2 == 1 => Subject::Fu(FuturesUnordered::default()),
                    "new" => Subject::Fu(FuturesUnordered::new()),
                    "from_iter" => Subject::Fu(init.iter().map(|c| SFut::new(*c)).collect()),
                    // an iterator that under-reports its length (lower bound 0)
                    "from_iter_lazy" => Subject::Fu(lazy(&init).map(|c| SFut::new(*c)).collect()),
                    _ => Subject::Fu(FuturesUnordered::with_capacity(cap)),
                },
                "fob" => {
                    let mut q = if ctor == "from_iter" {
                        init.iter().map(|c| SFut::new(*c)).collect()
                    } else if ctor == "from_iter_lazy" {
                        lazy(&init).map(|c| SFut::new(*c)).collect()
                    } else {
                        FuturesOrderedBounded::new(cap)
                    };
                    if let (Some(s), true) = (start, init.is_empty()) {
                        q.verif_seed_indices(s as usize);
                    }
                    Subject::Fob(q)
                }
                "fo" => {
                    let mut q = match ctor.as_str() {
                        "new" if cap % 2 == 1 => FuturesOrdered::default(),
                        "new" => FuturesOrdered::new(),
                        "from_iter" => init.iter().map(|c| SFut::new(*c)).collect(),
                        "from_iter_lazy" => lazy(&init).map(|c| SFut::new(*c)).collect(),
                        _ => FuturesOrdered::with_capacity(cap),
                    };
                    if let (Some(s), true) = (start, init.is_empty()) {
                        q.verif_seed_indices(s as usize);
                    }
                    Subject::Fo(q)
                }
                // MergeBounded offers only FromIterator: its capacity is the number of initial sources
                "mb" if ctor == "from_iter_lazy" => Subject::Mb(lazy(&init).map(|c| SStream::new(*c)).collect()),
                "mb" => Subject::Mb(init.iter().map(|c| SStream::new(*c)).collect()),
                "mu" => match ctor.as_str() {
                    "new" if cap % 2 == 1 => Subject::Mu(MergeUnbounded::default()),
                    "new" => Subject::Mu(MergeUnbounded::new()),
                    "from_iter" | "from_iter_lazy" => Subject::Mu(lazy(&init).map(|c| SStreamU::new(*c)).collect()),
                    // (the seeding constructor is not part of the crate's interface: capacity 0 is not a legal request)
                    _ if cap == 0 => Subject::Mu(MergeUnbounded::new()),
                    _ => Subject::Mu(MergeUnbounded::verif_with_first_capacity(cap)),
                },
                "bu" => Subject::Bu(Box::pin(SUp::<SFut>::new().buffered_unordered(cap))),
                "bo" => Subject::Bo(Box::pin(SUp::<SFut>::new().buffered_ordered(cap))),
                "tbu" => Subject::Tbu(Box::pin(SUp::<Result<STry, Token>>::new().try_buffered_unordered(cap))),
                "tbo" => Subject::Tbo(Box::pin(SUp::<Result<STry, Token>>::new().try_buffered_ordered(cap))),
                "fe" => Subject::Fe(Box::pin(BufferedStreamExt::for_each_concurrent(
                    SUp::<u32>::new(),
                    cap,
                    fe_make as FeFn,
                ))),
                // (an iterator without an exact size hint for the "lazy" constructor)
                "ja" if ctor == "zst" => Subject::JaZ(join_all(init.iter().map(|c| ZFut::new(*c)))),
                "ja" if ctor == "plainout" => Subject::JaO(join_all(init.iter().map(|c| OFut::new(*c)))),
                "tja" if ctor == "plainout" => Subject::TjaO(try_join_all(init.iter().map(|c| OTry::new(*c)))),
                "ja" if ctor == "plain" => Subject::JaP(join_all(init.iter().map(|c| PFut::new(*c)))),
                "tja" if ctor == "plain" => Subject::TjaP(try_join_all(init.iter().map(|c| PTry::new(*c)))),
                "ja" if ctor == "from_iter_lazy" => Subject::Ja(join_all(lazy(&init).map(|c| SFut::new(*c)))),
                "tja" if ctor == "from_iter_lazy" => Subject::Tja(try_join_all(lazy(&init).map(|c| STry::new(*c)))),
                "ja" => Subject::Ja(join_all(init.iter().map(|c| SFut::new(*c)))),
                "tja" => Subject::Tja(try_join_all(init.iter().map(|c| STry::new(*c)))),
                k => panic!("unknown kind {k}"),
            }
        }));
        let al = take_allocs();
        match r {
            Ok(subj) => {
                ev(format!(r#"{{"e":"new","res":"ok","al":{}}}"#, al));
                for c in &init {
                    ev(format!(
                        r#"{{"e":"push","c":{},"how":"init","res":"ok","same":true,"al":0}}"#,
                        c
                    ));
                }
                Some(Runner { inputs: sc.init.clone(), final_wake: sc.final_wake, subj, kind, received: vec![], yielded: 0, finished: false })
            }
            Err(_) => {
                ev(r#"{"e":"new","res":"panic","al":0}"#.to_string());
                None
            }
        }
    }

    fn obs(&mut self) {
        let (len, empty, term, cap, lo, hi): (i64, bool, bool, i64, usize, Option<usize>) = {
            let _c = InCrate::enter();
            use futures_core::FusedStream;
            match &self.subj {
                Subject::Fub(q) => {
                    let h = q.size_hint();
                    (q.len() as i64, q.is_empty(), q.is_terminated(), q.capacity() as i64, h.0, h.1)
                }
                Subject::Fu(q) => {
                    let h = q.size_hint();
                    (q.len() as i64, q.is_empty(), q.is_terminated(), -1, h.0, h.1)
                }
                Subject::Fob(q) => {
                    let h = q.size_hint();
                    (q.len() as i64, q.is_empty(), q.is_terminated(), -1, h.0, h.1)
                }
                Subject::Fo(q) => {
                    let h = q.size_hint();
                    (q.len() as i64, q.is_empty(), q.is_terminated(), -1, h.0, h.1)
                }
                Subject::Mb(q) => {
                    let h = q.size_hint();
                    (-1, false, false, -1, h.0, h.1)
                }
                Subject::Mu(q) => {
                    let h = q.size_hint();
                    (q.len() as i64, q.is_empty(), false, -1, h.0, h.1)
                }
                Subject::Bu(q) => {
                    let h = q.size_hint();
                    (-1, false, false, -1, h.0, h.1)
                }
                Subject::Bo(q) => {
                    let h = q.size_hint();
                    (-1, false, false, -1, h.0, h.1)
                }
                Subject::Tbu(q) => {
                    let h = q.size_hint();
                    (-1, false, false, -1, h.0, h.1)
                }
                Subject::Tbo(q) => {
                    let h = q.size_hint();
                    (-1, false, false, -1, h.0, h.1)
                }
                _ => return,
            }
        };
        if is_adapter(&self.kind) && up_is_huge() {
            // numbers around usize::MAX do not fit the trace format: an order-preserving map brings them down
            // (x < 2^64 - 100000 -> min(x, 999999); otherwise 1000000 + (x - (2^64 - 100000)))
            let shift = |x: u128| -> i64 {
                let base = (1u128 << 64) - 100_000;
                if x < base { x.min(999_999) as i64 } else { (1_000_000 + (x - base)) as i64 }
            };
            let (alive, produced): (i64, i64) = with(|w| (w.alive.len() as i64, w.produced));
            let rem = up_huge_remaining() + (alive + produced - self.yielded) as u128;
            ev(format!(
                r#"{{"e":"obs","len":{},"empty":{},"term":{},"cap":{},"lo":{},"hi":{},"rem":{}}}"#,
                len,
                empty,
                term,
                cap,
                shift(lo as u128),
                hi.map(|h| shift(h as u128)).unwrap_or(-1),
                shift(rem)
            ));
            return;
        }
        let rem = self.remaining();
        ev(format!(
            r#"{{"e":"obs","len":{},"empty":{},"term":{},"cap":{},"lo":{},"hi":{},"rem":{}}}"#,
            len,
            empty,
            term,
            cap,
            lo.min(i32::MAX as usize),
            hi.map(|h| h.min(i32::MAX as usize) as i64).unwrap_or(-1),
            rem
        ));
    }

    /// number of items this stream will still yield if it is driven to the end (known to the environment)
    fn remaining(&self) -> i64 {
        let (alive, produced): (Vec<u32>, i64) = with(|w| (w.alive.iter().copied().collect(), w.produced));
        let parked = produced - self.yielded;
        if is_merge(&self.kind) {
            // items still to come from the live sources: scripted "I" steps plus drain-phase items
            with(|w| alive.iter().map(|c| source_left(w, *c).1 as i64).sum::<i64>()) + parked
        } else {
            let up = if is_adapter(&self.kind) { up_remaining() } else { 0 };
            up + alive.len() as i64 + parked
        }
    }

    pub fn push(&mut self, c: u32, front: bool, try_: bool) {
        ev(format!(r#"{{"e":"push_b","c":{}}}"#, c));
        let how = if front { "front" } else { "back" };
        // Ok(None) accepted, Ok(Some(same)) refused, Err panic
        let r: Result<Option<bool>, ()> = catch_unwind(AssertUnwindSafe(|| {
            let _c = InCrate::enter();
            match &mut self.subj {
                Subject::Fub(q) => {
                    if try_ {
                        q.try_push(SFut::new(c)).err().map(|f| keep_back(f.id == c, f))
                    } else {
                        q.push(SFut::new(c));
                        None
                    }
                }
                Subject::Fu(q) => {
                    q.push(SFut::new(c));
                    None
                }
                Subject::Fob(q) => match (try_, front) {
                    (true, false) => q.try_push_back(SFut::new(c)).err().map(|f| keep_back(f.id == c, f)),
                    (true, true) => q.try_push_front(SFut::new(c)).err().map(|f| keep_back(f.id == c, f)),
                    // `Extend` is push_back for every item
                    (false, false) if c % 3 == 0 => {
                        q.extend(std::iter::once(SFut::new(c)));
                        None
                    }
                    (false, false) => {
                        q.push_back(SFut::new(c));
                        None
                    }
                    (false, true) => {
                        q.push_front(SFut::new(c));
                        None
                    }
                },
                Subject::Fo(q) => {
                    if front {
                        q.push_front(SFut::new(c))
                    } else if c % 3 == 0 {
                        q.extend(std::iter::once(SFut::new(c)))
                    } else {
                        q.push_back(SFut::new(c))
                    }
                    None
                }
                Subject::Mb(q) => {
                    if try_ {
                        q.try_push(SStream::new(c)).err().map(|f| keep_back_s(f.id == c, f))
                    } else {
                        q.push(SStream::new(c));
                        None
                    }
                }
                Subject::Mu(q) => {
                    q.push(SStreamU::new(c));
                    None
                }
                _ => panic!("push on this kind"),
            }
        }))
        .map_err(|_| ());
        let al = take_allocs();
        let (res, same) = match r {
            Ok(None) => ("ok", true),
            Ok(Some(same)) => ("full", same),
            Err(()) => ("panic", true),
        };
        // the panic machinery allocates its payload; that is not the collection's allocation
        let al = if res == "panic" { 0 } else { al };
        ev(format!(
            r#"{{"e":"push","c":{},"how":"{}","res":"{}","same":{},"al":{}}}"#,
            c, how, res, same, al
        ));
        self.obs();
    }

    fn poll_once(&mut self, w: u32) -> Result<PollOut, ()> {
        let waker = task_waker(w);
        let mut cx = Context::from_waker(&waker);
        let r = catch_unwind(AssertUnwindSafe(|| {
            let _c = InCrate::enter();
            fn st(p: Poll<Option<Token>>) -> PollOut {
                match p {
                    Poll::Pending => PollOut::Pending,
                    Poll::Ready(None) => PollOut::None,
                    Poll::Ready(Some(t)) => PollOut::Item(t),
                }
            }
            fn tst(p: Poll<Option<Result<Token, Token>>>) -> PollOut {
                match p {
                    Poll::Pending => PollOut::Pending,
                    Poll::Ready(None) => PollOut::None,
                    Poll::Ready(Some(Ok(t))) => PollOut::Item(t),
                    Poll::Ready(Some(Err(t))) => PollOut::ItemErr(t),
                }
            }
            match &mut self.subj {
                Subject::Fub(q) => st(Pin::new(q).poll_next(&mut cx)),
                Subject::Fu(q) => st(Pin::new(q).poll_next(&mut cx)),
                Subject::Fob(q) => st(Pin::new(q).poll_next(&mut cx)),
                Subject::Fo(q) => st(Pin::new(q).poll_next(&mut cx)),
                Subject::Mb(q) => st(Pin::new(q).poll_next(&mut cx)),
                Subject::Mu(q) => st(Pin::new(q).poll_next(&mut cx)),
                Subject::Bu(q) => st(q.as_mut().poll_next(&mut cx)),
                Subject::Bo(q) => st(q.as_mut().poll_next(&mut cx)),
                Subject::Tbu(q) => tst(q.as_mut().poll_next(&mut cx)),
                Subject::Tbo(q) => tst(q.as_mut().poll_next(&mut cx)),
                Subject::Fe(q) => match q.as_mut().poll(&mut cx) {
                    Poll::Pending => PollOut::Pending,
                    Poll::Ready(()) => PollOut::Done,
                },
                Subject::Ja(q) => match Pin::new(q).poll(&mut cx) {
                    Poll::Pending => PollOut::Pending,
                    Poll::Ready(v) => PollOut::Vec(v),
                },
                Subject::JaZ(q) => match Pin::new(q).poll(&mut cx) {
                    Poll::Pending => PollOut::Pending,
                    Poll::Ready(v) => PollOut::VecZ(v.len()),
                },
                Subject::JaO(q) => match Pin::new(q).poll(&mut cx) {
                    Poll::Pending => PollOut::Pending,
                    Poll::Ready(v) => PollOut::VecP(v),
                },
                Subject::TjaO(q) => match Pin::new(q).poll(&mut cx) {
                    Poll::Pending => PollOut::Pending,
                    Poll::Ready(Ok(v)) => PollOut::VecP(v),
                    Poll::Ready(Err(e)) => PollOut::Err(e),
                },
                Subject::JaP(q) => match Pin::new(q).poll(&mut cx) {
                    Poll::Pending => PollOut::Pending,
                    Poll::Ready(v) => PollOut::Vec(v),
                },
                Subject::TjaP(q) => match Pin::new(q).poll(&mut cx) {
                    Poll::Pending => PollOut::Pending,
                    Poll::Ready(Ok(v)) => PollOut::Vec(v),
                    Poll::Ready(Err(e)) => PollOut::Err(e),
                },
                Subject::Tja(q) => match Pin::new(q).poll(&mut cx) {
                    Poll::Pending => PollOut::Pending,
                    Poll::Ready(Ok(v)) => PollOut::Vec(v),
                    Poll::Ready(Err(e)) => PollOut::Err(e),
                },
                Subject::Dead => PollOut::None,
            }
        }));
        drop(waker);
        r.map_err(|_| ())
    }

    /// returns true when the subject reported its end
    pub fn poll(&mut self, w: u32) -> bool {
        ev(format!(r#"{{"e":"poll","w":{}}}"#, w));
        with(|x| x.polls_in_call = 0);
        let r = self.poll_once(w);
        let al = take_allocs();
        let mut ended = false;
        match r {
            Err(()) => {
                let _ = al;
                ev(r#"{"e":"ret","res":"panic","c":0,"k":0,"al":0}"#.to_string())
            }
            Ok(PollOut::Pending) => ev(format!(r#"{{"e":"ret","res":"pending","c":0,"k":0,"al":{}}}"#, al)),
            Ok(PollOut::None) => {
                ended = true;
                ev(format!(r#"{{"e":"ret","res":"none","c":0,"k":0,"al":{}}}"#, al))
            }
            Ok(PollOut::Done) => {
                ended = true;
                ev(format!(r#"{{"e":"ret","res":"done","c":0,"k":0,"al":{}}}"#, al))
            }
            Ok(PollOut::Item(t)) | Ok(PollOut::ItemErr(t)) => {
                self.yielded += 1;
                if t.valid() {
                    ev(format!(r#"{{"e":"ret","res":"item","c":{},"k":{},"al":{}}}"#, t.c, t.k, al));
                    self.received.push(t);
                } else {
                    ev(format!(r#"{{"e":"ret","res":"item","c":-1,"k":0,"al":{}}}"#, al));
                    std::mem::forget(t);
                }
            }
            Ok(PollOut::Vec(v)) => {
                ended = true;
                let mut ids = vec![];
                for t in v {
                    if t.valid() {
                        ids.push(t.c.to_string());
                        self.received.push(t);
                    } else {
                        ids.push("-1".to_string());
                        std::mem::forget(t);
                    }
                }
                ev(format!(r#"{{"e":"vec","v":[{}],"al":{}}}"#, ids.join(","), al));
            }
            Ok(PollOut::VecZ(len)) => {
                ended = true;
                let init = self.inputs.clone();
                let mut ids = vec![];
                // element i belongs to input i; whatever exceeds the inputs was produced by nobody
                for i in 0..len.min(init.len() + 3) {
                    let c = init.get(i).map(|c| *c as i64).unwrap_or(-1);
                    if c >= 0 && with(|w| w.plain_out.get(&(c, 0)) == Some(&false)) {
                        ids.push(c.to_string());
                        with(|w| w.plain_out.insert((c, 0), true));
                    } else {
                        ids.push("-1".to_string());
                    }
                }
                ev(format!(r#"{{"e":"vec","v":[{}],"al":{}}}"#, ids.join(","), al));
            }
            Ok(PollOut::VecP(v)) => {
                ended = true;
                let mut ids = vec![];
                for t in v {
                    if t.valid() && with(|w| w.plain_out.get(&(t.c, t.k)) == Some(&false)) {
                        ids.push(t.c.to_string());
                        with(|w| w.plain_out.insert((t.c, t.k), true));
                    } else {
                        // garbage, or an identity handed out before
                        ids.push("-1".to_string());
                    }
                }
                ev(format!(r#"{{"e":"vec","v":[{}],"al":{}}}"#, ids.join(","), al));
            }
            Ok(PollOut::Err(t)) => {
                ended = true;
                if t.valid() {
                    ev(format!(r#"{{"e":"err","c":{},"al":{}}}"#, t.c, al));
                    self.received.push(t);
                } else {
                    ev(format!(r#"{{"e":"err","c":-1,"al":{}}}"#, al));
                    std::mem::forget(t);
                }
            }
        }
        // the caller does not hoard what it received (keeps the monitored state small in long runs)
        if self.received.len() > 48 {
            let old: Vec<Token> = self.received.drain(..32).collect();
            drop(old);
        }
        self.obs();
        ended
    }

    pub fn wake(&mut self, c: u32, by_val: bool) {
        let wk = with(|w| w.stash.remove(&c));
        if let Some(wk) = wk {
            fire(c, &wk, by_val);
            with(|w| w.stash.insert(c, wk));
        }
    }

    pub fn apply(&mut self, op: &Op) {
        match op {
            Op::Push { c, front, r#try } => self.push(*c, *front, *r#try),
            Op::Poll { w } => {
                self.poll(*w);
            }
            Op::Wake { c, by_val } => self.wake(*c, *by_val),
            Op::Complete { c } => {
                with(|w| w.ready.insert(*c));
                self.wake(*c, false);
            }
            Op::Wclone { c } => {
                let wk = with(|w| w.stash.remove(c));
                if let Some(wk) = wk {
                    let cl = {
                        let _c = InCrate::enter();
                        wk.clone()
                    };
                    with(|w| {
                        w.stash.insert(*c, wk);
                        w.pool.push((*c, cl));
                    });
                }
            }
            Op::Wdrop { c } => {
                let wk = with(|w| w.pool.iter().position(|x| x.0 == *c).map(|i| w.pool.remove(i)));
                if let Some(wk) = wk {
                    let _c = InCrate::enter();
                    drop(wk);
                }
            }
            Op::Forget { c } => {
                let wk = with(|w| w.stash.remove(c));
                if let Some(wk) = wk {
                    let _c = InCrate::enter();
                    drop(wk);
                }
            }
            Op::UpWake => {
                let wk = with(|w| w.up_waker.take());
                if let Some(wk) = wk {
                    ev(format!(r#"{{"e":"wake_b","c":0,"key":0,"t":{}}}"#, crate::gate::me()));
                    wk.wake();
                    ev(format!(r#"{{"e":"wake_e","t":{}}}"#, crate::gate::me()));
                }
            }
            Op::Move => {
                let s = std::mem::replace(&mut self.subj, Subject::Dead);
                let b = Box::new(s);
                let b2 = std::hint::black_box(b);
                self.subj = *b2;
                ev(r#"{"e":"move"}"#.to_string());
            }
            Op::Quiet { n } => {
                for _ in 0..*n {
                    self.poll(1);
                }
            }
            Op::DropColl => self.drop_coll(),
        }
    }

    pub fn drop_coll(&mut self) {
        if matches!(self.subj, Subject::Dead) {
            return;
        }
        ev(r#"{"e":"dropc_b"}"#.to_string());
        let s = std::mem::replace(&mut self.subj, Subject::Dead);
        let _ = catch_unwind(AssertUnwindSafe(|| {
            let _c = InCrate::enter();
            drop(s);
        }));
        plain_released_with_collection();
        plain_outputs_gone(false);
        take_allocs();
        ev(r#"{"e":"dropc_e"}"#.to_string());
    }

    /// make every child ready, fire every stored waker, poll until the end (bounded)
    pub fn drain(&mut self) {
        if matches!(self.subj, Subject::Dead) {
            return;
        }
        with(|w| {
            w.draining = true;
            w.scripts.clear();
        });
        ev(r#"{"e":"drain_b"}"#.to_string());
        let ids: Vec<u32> = with(|w| w.stash.keys().copied().collect());
        let mut ids = ids;
        ids.sort();
        for c in ids {
            self.wake(c, false);
        }
        if with(|w| w.up_waker.is_some()) {
            self.apply(&Op::UpWake);
        }
        let budget = 6 * (with(|w| w.alive.len()) as i64 + up_remaining() + self.remaining() + 8);
        let mut n = 0;
        loop {
            if self.poll(1) {
                self.finished = true;
                break;
            }
            n += 1;
            if n > budget {
                ev(r#"{"e":"drain_fail"}"#.to_string());
                break;
            }
        }
    }

    pub fn finish(&mut self) {
        self.drop_coll();
        // the caller's own wakers and values go last
        let (stash, pool, up) = with(|w| {
            (
                std::mem::take(&mut w.stash).into_iter().collect::<Vec<_>>(),
                std::mem::take(&mut w.pool),
                w.up_waker.take(),
            )
        });
        {
            let _c = InCrate::enter();
            drop(pool);
        }
        if self.final_wake {
            for (c, wk) in stash {
                let key = with(|w| w.key_of(wk.data() as usize));
                ev(format!(r#"{{"e":"wake_b","c":{},"key":{},"t":{}}}"#, c, key, crate::gate::me()));
                {
                    let _c = InCrate::enter();
                    wk.wake();
                }
                ev(format!(r#"{{"e":"wake_e","t":{}}}"#, crate::gate::me()));
            }
        } else {
            let _c = InCrate::enter();
            drop(stash);
        }
        drop(up);
        take_allocs();
        let rec = std::mem::take(&mut self.received);
        drop(rec);
        plain_outputs_gone(true);
        let (c, d) = (
            TW_CLONES.load(std::sync::atomic::Ordering::SeqCst),
            TW_DROPS.load(std::sync::atomic::Ordering::SeqCst),
        );
        ev(format!(r#"{{"e":"twsum","clones":{},"drops":{}}}"#, c, d));
        ev(r#"{"e":"end"}"#.to_string());
    }
}

/// the refused child is the caller's again; it is discarded outside the trace's ownership
fn keep_back(same: bool, f: SFut) -> bool {
    with(|w| w.alive.remove(&f.id));
    std::mem::forget(f);
    same
}
fn keep_back_s(same: bool, f: SStream) -> bool {
    with(|w| w.alive.remove(&f.id));
    std::mem::forget(f);
    same
}

/// run one scenario; the trace is appended to the world log
pub fn run_scenario(sc: &Scenario, run: u64, hooklog: bool) {
    reset_world(hooklog);
    ev(format!(r#"{{"e":"reset","kind":"{}","cap":{},"run":{}}}"#, sc.kind, sc.cap, run));
    with(|w| {
        for (c, steps) in &sc.scripts {
            w.scripts.insert(*c, steps.iter().cloned().collect());
        }
        for (c, n) in &sc.stream_left {
            w.stream_left.insert(*c, *n);
        }
        w.nokeep = sc.nokeep;
        for c in &sc.drop_panic {
            w.drop_panic.insert(*c);
        }
    });
    *UP.lock().unwrap() = Some(UpState {
        script: sc.up.iter().cloned().collect(),
        ended: false,
        hint: if sc.hint.is_empty() { "exact".into() } else { sc.hint.clone() },
        pulled: 0,
    });
    let Some(mut r) = Runner::construct(sc) else {
        ev(r#"{"e":"end"}"#.to_string());
        return;
    };
    r.obs();
    for op in &sc.ops {
        r.apply(op);
    }
    match sc.tail.as_str() {
        "drop" | "none" => {}
        "quiet" => {
            let n = with(|w| w.alive.len()) as u32 + 3;
            r.apply(&Op::Quiet { n });
            r.drain();
        }
        "quietonly" => {
            let n = with(|w| w.alive.len()) as u32 + 3;
            r.apply(&Op::Quiet { n });
        }
        "repoll" => {
            r.drain();
            r.apply(&Op::Quiet { n: 2 });
        }
        _ => r.drain(),
    }
    r.finish();
}
