//! Global state of the harness: event log, counting allocator, output tokens,
//! task wakers, stash of child wakers, hook decoding.

use std::alloc::{GlobalAlloc, Layout, System};
use std::cell::Cell;
use std::collections::{HashMap, VecDeque};
use std::sync::atomic::{AtomicBool, AtomicU64, Ordering};
use std::sync::Mutex;
use std::task::{RawWaker, RawWakerVTable, Waker};

// ------------------------------------------------------------------ allocator
thread_local! {
    static IN_CRATE: Cell<u32> = const { Cell::new(0) };
    static SUSPEND: Cell<u32> = const { Cell::new(0) };
    static ALLOCS: Cell<u64> = const { Cell::new(0) };
}
pub static TRAP: AtomicBool = AtomicBool::new(false);
pub struct Counting;
unsafe impl GlobalAlloc for Counting {
    unsafe fn alloc(&self, l: Layout) -> *mut u8 {
        count();
        System.alloc(l)
    }
    unsafe fn dealloc(&self, p: *mut u8, l: Layout) {
        System.dealloc(p, l)
    }
    unsafe fn realloc(&self, p: *mut u8, l: Layout, n: usize) -> *mut u8 {
        count();
        System.realloc(p, l, n)
    }
    unsafe fn alloc_zeroed(&self, l: Layout) -> *mut u8 {
        count();
        System.alloc_zeroed(l)
    }
}
#[inline]
fn count() {
    let _ = IN_CRATE.try_with(|c| {
        if c.get() > 0 && SUSPEND.with(|s| s.get()) == 0 {
            ALLOCS.with(|a| a.set(a.get() + 1));
            if TRAP.load(Ordering::Relaxed) {
                // debugging aid: show who allocates inside the crate (FBV_TRAP_ALLOC=1)
                SUSPEND.with(|s| s.set(s.get() + 1));
                eprintln!("ALLOC inside crate:\n{}", std::backtrace::Backtrace::force_capture());
                SUSPEND.with(|s| s.set(s.get() - 1));
            }
        }
    });
}
/// control is inside the crate under test (allocations are counted)
pub struct InCrate;
impl InCrate {
    pub fn enter() -> InCrate {
        IN_CRATE.with(|c| c.set(c.get() + 1));
        InCrate
    }
}
impl Drop for InCrate {
    fn drop(&mut self) {
        IN_CRATE.with(|c| c.set(c.get() - 1));
    }
}
/// control is inside a harness callback (allocations are not the crate's)
pub struct Suspend;
impl Suspend {
    pub fn new() -> Suspend {
        SUSPEND.with(|c| c.set(c.get() + 1));
        Suspend
    }
}
impl Drop for Suspend {
    fn drop(&mut self) {
        SUSPEND.with(|c| c.set(c.get() - 1));
    }
}
/// control goes back into the crate from inside a harness callback (a child invoking a waker)
pub struct Resume(u32);
impl Resume {
    pub fn new() -> Resume {
        Resume(SUSPEND.with(|c| c.replace(0)))
    }
}
impl Drop for Resume {
    fn drop(&mut self) {
        SUSPEND.with(|c| c.set(self.0));
    }
}
/// control is in harness code that was called from the crate (upstream, closures): not the crate's doing
pub struct OutCrate(u32);
impl OutCrate {
    pub fn new() -> OutCrate {
        OutCrate(IN_CRATE.with(|c| c.replace(0)))
    }
}
impl Drop for OutCrate {
    fn drop(&mut self) {
        IN_CRATE.with(|c| c.set(self.0));
    }
}
pub fn take_allocs() -> u64 {
    ALLOCS.with(|a| a.replace(0))
}

// ------------------------------------------------------------------ scripts
#[derive(Clone, Debug, serde::Serialize, serde::Deserialize, PartialEq)]
pub enum Act {
    /// invoke the waker this poll was given
    SelfWake,
    /// invoke the stored waker of another child (possibly finished: stale)
    Wake(u32),
}
#[derive(Clone, Debug, serde::Serialize, serde::Deserialize, PartialEq)]
pub struct Step {
    pub acts: Vec<Act>,
    /// "P" pending, "R" ready, "X" ready with an error (try futures), "I" item, "E" end of stream
    pub resp: String,
}

#[derive(Clone, Debug)]
pub struct Block {
    pub id: i64,
    pub base: usize,
    pub cap: usize,
    pub item: usize,
    pub off: usize,
    pub size: usize,
    pub live: bool,
}

pub struct World {
    pub log: Vec<String>,
    pub hooklog: bool,
    pub scripts: HashMap<u32, VecDeque<Step>>,
    /// what a child answers when its script is exhausted
    pub draining: bool,
    /// items a stream child still has to produce during the drain
    pub stream_left: HashMap<u32, u32>,
    pub items_done: HashMap<u32, i64>,
    pub stash: HashMap<u32, Waker>,
    pub pool: Vec<(u32, Waker)>,
    pub up_waker: Option<Waker>,
    pub tokens: HashMap<(i64, i64), (u64, u8)>,
    pub addr_ids: HashMap<usize, i64>,
    pub blocks: Vec<Block>,
    pub nblocks: i64,
    pub fallback_keys: HashMap<usize, i64>,
    pub polls_in_call: u64,
    pub poll_limit: u64,
    pub tw_clones: i64,
    pub tw_drops: i64,
    pub next_tag: u64,
    pub alive: std::collections::BTreeSet<u32>,
    /// children without drop glue and the address of their latest poll (0: not polled yet)
    pub plain: std::collections::BTreeMap<u32, usize>,
    /// outputs without drop glue: handed out to the caller?
    pub plain_out: std::collections::BTreeMap<(i64, i64), bool>,
    pub produced: i64,
    pub mute: bool,
    /// children the environment has completed (oneshot-like): they answer Ready at their next poll
    pub ready: std::collections::BTreeSet<u32>,
    /// children whose destructor panics (once)
    pub drop_panic: std::collections::BTreeSet<u32>,
    /// children do not keep their waker
    pub nokeep: bool,
}

pub static WORLD: Mutex<Option<World>> = Mutex::new(None);
pub static HOOKS_ON: AtomicBool = AtomicBool::new(false);
static SEQ: AtomicU64 = AtomicU64::new(0);
pub static HEARTBEAT: AtomicU64 = AtomicU64::new(0);
pub static TW_CLONES: std::sync::atomic::AtomicI64 = std::sync::atomic::AtomicI64::new(0);
pub static TW_DROPS: std::sync::atomic::AtomicI64 = std::sync::atomic::AtomicI64::new(0);

pub fn with<R>(f: impl FnOnce(&mut World) -> R) -> R {
    let mut g = WORLD.lock().unwrap_or_else(|e| e.into_inner());
    f(g.as_mut().expect("world"))
}

pub fn reset_world(hooklog: bool) {
    let _s = Suspend::new();
    let mut g = WORLD.lock().unwrap_or_else(|e| e.into_inner());
    let log = g.take().map(|w| w.log).unwrap_or_default();
    *g = Some(World {
        log,
        hooklog,
        scripts: HashMap::new(),
        draining: false,
        stream_left: HashMap::new(),
        items_done: HashMap::new(),
        stash: HashMap::new(),
        pool: Vec::new(),
        up_waker: None,
        tokens: HashMap::new(),
        addr_ids: HashMap::new(),
        blocks: Vec::new(),
        nblocks: 0,
        fallback_keys: HashMap::new(),
        polls_in_call: 0,
        poll_limit: 200_000,
        tw_clones: 0,
        tw_drops: 0,
        next_tag: 0x9E37_79B9_7F4A_7C15,
        alive: Default::default(),
        plain: Default::default(),
        plain_out: Default::default(),
        produced: 0,
        mute: false,
        ready: Default::default(),
        drop_panic: Default::default(),
        nokeep: false,
    });
    SEQ.store(0, Ordering::SeqCst);
    TW_CLONES.store(0, Ordering::SeqCst);
    TW_DROPS.store(0, Ordering::SeqCst);
}

pub fn ev(line: String) {
    let _s = Suspend::new();
    HEARTBEAT.fetch_add(1, Ordering::Relaxed);
    with(|w| {
        if !w.mute {
            w.log.push(line)
        }
    });
}
pub fn take_log() -> Vec<String> {
    let _s = Suspend::new();
    with(|w| std::mem::take(&mut w.log))
}

impl World {
    pub fn addr_id(&mut self, a: usize) -> i64 {
        let n = self.addr_ids.len() as i64 + 1;
        *self.addr_ids.entry(a).or_insert(n)
    }
    /// normalise a child-waker data pointer to block * 100000 + slot
    pub fn key_of(&mut self, p: usize) -> i64 {
        for b in self.blocks.iter().rev() {
            let lo = b.base + b.off;
            let hi = lo + b.item * (b.cap + 1);
            if p >= lo && p < hi && b.item > 0 && (p - lo) % b.item == 0 {
                return b.id * 100000 + ((p - lo) / b.item) as i64;
            }
        }
        let n = 9_000_000 + self.fallback_keys.len() as i64;
        *self.fallback_keys.entry(p).or_insert(n)
    }
    pub fn block_of(&self, base: usize) -> i64 {
        for b in self.blocks.iter().rev() {
            if b.base == base {
                return b.id;
            }
        }
        -1
    }
}

// ------------------------------------------------------------------ hook decoding
pub fn install_hook() {
    futures_buffered::verif::set_hook(hook);
    HOOKS_ON.store(true, Ordering::SeqCst);
}
fn hook(kind: u32, a: usize, b: usize, c: usize) {
    let _s = Suspend::new();
    // log first (the event has just happened), then park at the gate
    let key = hook_log(kind, a, b, c);
    crate::gate::sync(&format!("H{}:{}", kind, key));
}
/// records the event; returns the slot key the event is about (0 if none)
fn hook_log(kind: u32, a: usize, b: usize, c: usize) -> i64 {
    let mut g = WORLD.lock().unwrap_or_else(|e| e.into_inner());
    let Some(w) = g.as_mut() else { return 0 };
    use futures_buffered::verif::kind as K;
    let lockkey = match kind {
        K::WAKE_LOCK | K::WAKE_SWAPPED | K::WAKE_ENQUEUED | K::WAKE_NOTIFIED | K::WAKE_DONE => w.key_of(a),
        K::PUSH_LOCK | K::PUSH_SWAPPED | K::PUSH_ENQUEUED | K::POP_SLOT | K::POP_CLEARED => w.block_of(a) * 100000 + b as i64,
        _ => 0,
    };
    match kind {
        K::BLOCK_ALLOC => {
            w.nblocks += 1;
            let id = w.nblocks;
            w.blocks.push(Block { id, base: a, cap: b, item: c, off: 0, size: 0, live: true });
            if w.hooklog {
                w.log.push(format!(r#"{{"e":"balloc","b":{},"cap":{}}}"#, id, b));
            }
        }
        K::BLOCK_LAYOUT => {
            if let Some(bl) = w.blocks.iter_mut().rev().find(|x| x.base == a) {
                bl.off = b;
                bl.size = c;
            }
        }
        K::BLOCK_FREE => {
            let id = w.block_of(a);
            let mut ok = true;
            if let Some(bl) = w.blocks.iter_mut().rev().find(|x| x.base == a) {
                ok = bl.live && bl.cap == b && bl.size == c;
                bl.live = false;
                // forget the address range: the allocator may hand it out again
                bl.base = usize::MAX - bl.id as usize * 4096;
            }
            if w.hooklog {
                w.log.push(format!(r#"{{"e":"bfree","b":{},"ok":{},"t":{}}}"#, id, ok, crate::gate::me()));
            }
        }
        K::VT_CLONE | K::VT_WAKE | K::VT_WAKE_BY_REF | K::VT_DROP => {
            if w.hooklog {
                // a = slot pointer, b = header it resolved to, c = index stored in the slot
                let key = w.key_of(a);
                let hb = w.block_of(b);
                let op = match kind {
                    K::VT_CLONE => "clone",
                    K::VT_WAKE => "wake",
                    K::VT_WAKE_BY_REF => "wake_by_ref",
                    _ => "drop",
                };
                w.log.push(format!(
                    r#"{{"e":"vt","op":"{}","b":{},"i":{},"hb":{},"t":{}}}"#,
                    op,
                    key / 100000,
                    key % 100000,
                    hb,
                    crate::gate::me()
                ));
                let _ = c;
            }
        }
        K::INC_STRONG | K::DEC_STRONG => {
            if w.hooklog {
                let id = w.block_of(a);
                w.log.push(format!(
                    r#"{{"e":"strong","op":"{}","b":{},"old":{},"t":{}}}"#,
                    if kind == K::INC_STRONG { "inc" } else { "dec" },
                    id,
                    b as i64,
                    crate::gate::me()
                ));
            }
        }
        K::LIST_DROP => {
            if w.hooklog {
                let id = w.block_of(a);
                w.log.push(format!(r#"{{"e":"hdrop","b":{}}}"#, id));
            }
        }
        K::BUDGET => {
            let id = w.block_of(a);
            w.log.push(format!(r#"{{"e":"budget","b":{},"max":{}}}"#, id, b));
        }
        K::GROUP_NEW | K::GROUP_REMOVE | K::GROUP_REINSERT | K::GROUP_VISIT => {
            if w.hooklog {
                let id = w.block_of(a);
                let nm = match kind {
                    K::GROUP_NEW => "gnew",
                    K::GROUP_REMOVE => "gremove",
                    K::GROUP_REINSERT => "greinsert",
                    _ => "gvisit",
                };
                w.log.push(format!(r#"{{"e":"{}","b":{},"x":{},"y":{}}}"#, nm, id, b, c));
            }
        }
        K::WAKE_SWAPPED | K::WAKE_ENQUEUED | K::WAKE_NOTIFIED | K::POP_SLOT | K::POP_CLEARED
        | K::POP_INCONSISTENT | K::PUSH_SWAPPED | K::PUSH_ENQUEUED | K::REG_BEFORE | K::REG_AFTER
        | K::INCONSISTENT_WAKE | K::DEC_FENCE | K::WAKE_DONE | K::SLOT_INSERT | K::SLOT_VACATE => {
            if w.hooklog {
                let (nm, bb, ii, x) = match kind {
                    K::WAKE_SWAPPED => {
                        let k = w.key_of(a);
                        ("wswap", k / 100000, k % 100000, b as i64)
                    }
                    K::WAKE_ENQUEUED => {
                        let k = w.key_of(a);
                        ("wenq", k / 100000, k % 100000, 0)
                    }
                    K::WAKE_NOTIFIED => {
                        let k = w.key_of(a);
                        ("wnotified", k / 100000, k % 100000, 0)
                    }
                    K::WAKE_DONE => {
                        let k = w.key_of(a);
                        ("wdone", k / 100000, k % 100000, 0)
                    }
                    K::POP_SLOT => ("pop", w.block_of(a), b as i64, 0),
                    K::POP_CLEARED => ("popclr", w.block_of(a), b as i64, 0),
                    K::POP_INCONSISTENT => ("popinc", w.block_of(a), 0, b as i64),
                    K::PUSH_SWAPPED => ("pswap", w.block_of(a), b as i64, c as i64),
                    K::PUSH_ENQUEUED => ("penq", w.block_of(a), b as i64, 0),
                    K::REG_BEFORE => ("regb", w.block_of(a), 0, 0),
                    K::REG_AFTER => ("rega", w.block_of(a), 0, 0),
                    K::INCONSISTENT_WAKE => ("incwake", w.block_of(a), 0, 0),
                    K::DEC_FENCE => ("fence", w.block_of(a), 0, 0),
                    K::SLOT_INSERT => ("ins", w.block_of(a), b as i64, 0),
                    _ => ("vac", w.block_of(a), b as i64, 0),
                };
                w.log.push(format!(
                    r#"{{"e":"{}","b":{},"i":{},"x":{},"t":{}}}"#,
                    nm,
                    bb,
                    ii,
                    x,
                    crate::gate::me()
                ));
            }
        }
        _ => {}
    }
    lockkey
}

// ------------------------------------------------------------------ tokens
const LIVE: u64 = 0x4C49_5645_4C49_5645;
const DEAD: u64 = 0x4445_4144_4445_4144;
/// An output value. Identity (c, k) plus a random tag registered at production, so that a
/// fabricated or uninitialised value is recognised without trusting anything in it.
#[repr(C)]
pub struct Token {
    pub c: i64,
    pub k: i64,
    tag: u64,
    live: u64,
}
impl Token {
    pub fn new(c: i64, k: i64) -> Token {
        let _s = Suspend::new();
        let tag = with(|w| {
            w.next_tag = w.next_tag.wrapping_mul(6364136223846793005).wrapping_add(1442695040888963407);
            let t = w.next_tag | 1;
            w.tokens.insert((c, k), (t, 0));
            w.produced += 1;
            t
        });
        Token { c, k, tag, live: LIVE }
    }
    /// was this value produced by the harness and is it still alive?
    pub fn valid(&self) -> bool {
        let _s = Suspend::new();
        self.live == LIVE && with(|w| w.tokens.get(&(self.c, self.k)).map(|x| x.0 == self.tag).unwrap_or(false))
    }
}
/// An output value without drop glue (`needs_drop::<PTok>()` is false).  Nobody can be observed destroying it, so the
/// harness accounts for it: handed out -> dropped by the caller at the end; still owned by the crate -> gone with the
/// collection.  `plain_out[(c,k)]` = true once it was handed out.
#[derive(Clone, Copy)]
#[repr(C)]
pub struct PTok {
    pub c: i64,
    pub k: i64,
    tag: u64,
}
impl PTok {
    pub fn new(c: i64, k: i64) -> PTok {
        let t = Token::new(c, k);
        let p = PTok { c, k, tag: t.tag };
        std::mem::forget(t);
        let _s = Suspend::new();
        with(|w| w.plain_out.insert((c, k), false));
        p
    }
    pub fn valid(&self) -> bool {
        let _s = Suspend::new();
        with(|w| w.tokens.get(&(self.c, self.k)).map(|x| x.0 == self.tag).unwrap_or(false))
    }
}
/// the plain outputs in the given state are destroyed now (handed = true: by the caller; false: with the collection)
pub fn plain_outputs_gone(handed: bool) {
    let _s = Suspend::new();
    let gone: Vec<(i64, i64)> = with(|w| {
        let g: Vec<(i64, i64)> = w.plain_out.iter().filter(|(_, h)| **h == handed).map(|(k, _)| *k).collect();
        for k in &g {
            w.plain_out.remove(k);
        }
        g
    });
    for (c, k) in gone {
        ev(format!(r#"{{"e":"odrop","c":{},"k":{}}}"#, c, k));
    }
}
impl Drop for Token {
    fn drop(&mut self) {
        let _s = Suspend::new();
        if self.valid() {
            self.live = DEAD;
            ev(format!(r#"{{"e":"odrop","c":{},"k":{}}}"#, self.c, self.k));
        } else if self.live == DEAD {
            ev(format!(r#"{{"e":"odrop","c":{},"k":{},"twice":true}}"#, self.c, self.k));
        } else {
            ev(r#"{"e":"odrop","c":-1,"k":0,"garbage":true}"#.to_string());
        }
    }
}
impl std::fmt::Debug for Token {
    fn fmt(&self, f: &mut std::fmt::Formatter<'_>) -> std::fmt::Result {
        write!(f, "T({},{})", self.c, self.k)
    }
}

// ------------------------------------------------------------------ task wakers
static TW_VTABLE: RawWakerVTable = RawWakerVTable::new(tw_clone, tw_wake, tw_wake_by_ref, tw_drop);
unsafe fn tw_clone(p: *const ()) -> RawWaker {
    let _s = Suspend::new();
    TW_CLONES.fetch_add(1, Ordering::SeqCst);
    log_tw("twc", p as usize);
    crate::gate::sync_cb("tw.clone");
    RawWaker::new(p, &TW_VTABLE)
}
unsafe fn tw_wake(p: *const ()) {
    tw_wake_by_ref(p);
    tw_drop(p);
}
unsafe fn tw_wake_by_ref(p: *const ()) {
    let _s = Suspend::new();
    ev(format!(r#"{{"e":"tw","w":{},"t":{}}}"#, p as usize, crate::gate::me()));
    crate::gate::sync_cb("tw.wake");
}
unsafe fn tw_drop(_p: *const ()) {
    let _s = Suspend::new();
    TW_DROPS.fetch_add(1, Ordering::SeqCst);
    log_tw("twd", _p as usize);
    crate::gate::sync_cb("tw.drop");
}
/// task waker cloned / destroyed while control is inside the crate (probe for C03)
fn log_tw(what: &str, w: usize) {
    if IN_CRATE.with(|c| c.get()) == 0 {
        return;
    }
    let mut g = WORLD.lock().unwrap_or_else(|e| e.into_inner());
    if let Some(x) = g.as_mut() {
        if x.hooklog {
            x.log.push(format!(r#"{{"e":"{}","w":{},"t":{}}}"#, what, w, crate::gate::me()));
        }
    }
}
/// the task waker number `w` (>= 1). No allocation; distinct numbers are distinct for `will_wake`.
pub fn task_waker(w: u32) -> Waker {
    TW_CLONES.fetch_add(1, Ordering::SeqCst);
    unsafe { Waker::from_raw(RawWaker::new(w as usize as *const (), &TW_VTABLE)) }
}

/// invoke a child waker, bracketed for the trace
pub fn fire(c: u32, wk: &Waker, by_val: bool) {
    let key = with(|w| w.key_of(wk.data() as usize));
    ev(format!(r#"{{"e":"wake_b","c":{},"key":{},"t":{}}}"#, c, key, crate::gate::me()));
    {
        let _r = Resume::new();
        let _c = InCrate::enter();
        if by_val {
            wk.clone().wake();
        } else {
            wk.wake_by_ref();
        }
    }
    ev(format!(r#"{{"e":"wake_e","t":{}}}"#, crate::gate::me()));
}
