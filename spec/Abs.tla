------------------------------- MODULE Abs -------------------------------
(***************************************************************************)
(* Property-essential specification ("Any" reading) of the futures-buffered *)
(* collections, merges, adapters and joins, written as a total,             *)
(* deterministic state machine over the *observable event vocabulary*       *)
(* shared by                                                                *)
(*   - the implementation-shaped specification Coll.tla (which emits these  *)
(*     events from its actions and is model-checked composed with this      *)
(*     machine), and                                                        *)
(*   - the Rust harness (which records these events while the real crate    *)
(*     runs; TraceAbs.tla replays the recording through this machine).      *)
(*                                                                          *)
(* The machine never blocks: an event that the properties forbid is         *)
(* consumed and recorded in s.viol as <<property id, reason>>, so every     *)
(* rejection is attributed to the property whose clause failed.             *)
(* State is ONE record `s`; Step(s, e) is a pure function.                  *)
(***************************************************************************)
EXTENDS Naturals, Integers, Sequences, FiniteSets, TLC

\* C13 wait bound = WaitMul * (peak population) + WaitAdd collection polls.  Trace validation uses a
\* generous linear bound (3, 16) so that any linear discipline passes; model checking of the Impl
\* reading uses the tight bound that FIFO + group rotation actually achieve.
\* StaleCap: saturation of the counter of stale wake-ups (trace validation: 100000; model checking: 0 - the known
\* corner it identifies needs 61 of them and the real budget of 61, far beyond the models).
CONSTANTS WaitMul, WaitAdd, StaleCap

\* ------------------------------------------------------------------ kinds
BoundedKinds   == {"fub", "fob", "mb"}
UnboundedKinds == {"fu", "fo", "mu"}
OrderedKinds   == {"fob", "fo", "bo", "tbo"}
MergeKinds     == {"mb", "mu"}
AdapterKinds   == {"bu", "bo", "tbu", "tbo", "fe"}
JoinKinds      == {"ja", "tja"}
CollKinds      == {"fub", "fu", "fob", "fo"}
\* kinds that must not allocate after construction (C18)
NoAllocKinds   == {"fub", "mb", "bu", "tbu", "fe", "ja", "tja"}
LogAllocKinds  == {"fu", "fo", "mu"}

\* which property a "lost / fabricated / not terminated" fault belongs to
DeliveryProp(k) == IF k \in MergeKinds THEN "C11"
                   ELSE IF k \in AdapterKinds THEN "C10"
                   ELSE IF k \in JoinKinds THEN "C07" ELSE "C02"

\* ------------------------------------------------------------------ state
NoFn == <<>>    \* the empty function

Fresh == [
  kind   |-> "none",   \* collection kind of the current run
  cap    |-> 0,        \* capacity / limit given to the constructor
  run    |-> 0,        \* run number (for reports)
  lastins|-> 0,        \* threaded runs: slot key reported by the insertion hook of the push in progress
  mt     |-> FALSE,    \* the run has child wakers invoked on other threads (gate-scheduled): a wake takes effect at its flag swap
  ch     |-> NoFn,     \* live children: id -> [st, ob, nt, np, key, addr, wt]
  pend   |-> {},       \* children handed to a push call that has not returned yet
  occ    |-> NoFn,     \* waker key -> child last polled with it
  tok    |-> {},       \* outputs <<c,k>> produced and still owned by the crate
  out    |-> {},       \* outputs handed to the caller and not dropped yet
  errs   |-> {},       \* outputs that are errors (try variants)
  expect |-> <<>>,     \* ordered kinds: children in queue order
  inpoll |-> FALSE, pw |-> 0, woken |-> FALSE, work |-> 0,
  lastret|-> "none",   \* result of the most recent top-level poll
  inwake |-> 0,        \* child-waker calls in flight
  indrop |-> FALSE,    \* inside the drop of the collection
  dead   |-> FALSE,    \* collection dropped
  refused|-> FALSE,    \* a push was refused (or panicked) earlier in this run: it must not have disturbed anything (C15)
  poison |-> FALSE,    \* a child's destructor panicked: the properties do not speak about what follows, except exactly-once dropping
  budgeted |-> FALSE,  \* the per-poll budget ran out during the latest poll (hook event)
  stale  |-> 0,        \* wake-ups of children that had finished already (vacant slots) and may still sit in a ready queue
  stale0 |-> 0,        \* ... at the beginning of the latest poll
  bmax   |-> 0,        \* the budget reported by the latest budget stop
  unw    |-> FALSE,    \* a panic raised by a child's destructor is unwinding through the crate
  qn     |-> 0,        \* C14: consecutive noisy Pending polls in a quiet phase
  act    |-> FALSE,    \* C14: a child waker was invoked / a child finished / upstream moved during this poll
  allocs |-> 0, peak |-> 0, ctor |-> FALSE,
  \* adapters
  n      |-> 0, upDone |-> FALSE, upPend |-> FALSE, upaddr |-> 0, updrops |-> 0,
  owed   |-> 0,        \* C17: the largest lower bound reported so far, less the items yielded since it was reported
  \* joins
  inputs |-> <<>>, firstErr |-> 0, resolved |-> FALSE,
  viol   |-> {}
]

\* A delivery / order / polling fault that shows up after a refused push is also a fault of the refusal contract:
\* "try_push* hands the future back, push* panics, without disturbing the held futures" (C15).
Disturb == {"C02", "C04", "C05", "C11", "C12"}
V(s, p, why) == IF s.poison /\ p # "C06" THEN s
                ELSE [s EXCEPT !.viol = @ \cup {<<p, why>>}
                                        \cup (IF s.refused /\ p \in Disturb THEN {<<"C15", "after a refused push the collection misbehaves: " \o why>>} ELSE {})]
Chk(s, ok, p, why) == IF ok THEN s ELSE V(s, p, why)

Held(s)  == {c \in DOMAIN s.ch : s.ch[c].st = "held"}
NHeld(s) == Cardinality(Held(s))
Pop(s)   == NHeld(s) + Cardinality(s.tok)         \* running + parked
Max(a, b) == IF a >= b THEN a ELSE b
Bump(s)  == [s EXCEPT !.peak = Max(@, Pop(s))]

RECURSIVE CeilLog2(_)
CeilLog2(x) == IF x <= 1 THEN 0 ELSE 1 + CeilLog2((x + 1) \div 2)

\* C13: a woken child is polled within a number of collection polls linear in the population
WaitBound(s) == WaitMul * s.peak + WaitAdd
\* C13: child polls inside one collection poll are bounded
\* (counted since the call began, since the last completion inside it or since the last item pulled from upstream: a call may go on for as long as children
\*  complete - joins, ordered collections, for_each - but between two completions it visits every group at most once,
\*  with a budget of 61 child polls each; the unbounded kinds have at most log2(peak) + 2 groups: a new group doubles the capacity
\*  of the last one and is created only when that one is full)
Groups(s) == IF s.kind \in {"fu", "fo", "mu"} THEN CeilLog2(s.peak + 1) + 3 ELSE 1
WorkBound(s) == 62 * Groups(s)
\* C18: allocations of the unbounded kinds over a whole history
AllocBound(s) == 4 * CeilLog2(s.peak + 1) + 8

NewChild == [st |-> "held", ob |-> FALSE, nt |-> TRUE, ar |-> FALSE, np |-> 0, key |-> 0, addr |-> 0, wt |-> 0]

\* --------------------------------------------------------------- run frame
StepReset(s, e) == [Fresh EXCEPT !.kind = e.kind, !.cap = e.cap, !.n = e.cap, !.run = e.run, !.mt = "exact" \in DOMAIN e]

\* (what was given to a constructor that failed is never delivered: also a fault of the delivery property of the kind)
StepNew(s, e) ==
  LET s1 == Chk(s, e.res = "ok", "C15", "constructor failed for capacity " \o ToString(s.cap))
      s2 == Chk(s1, e.res = "ok" \/ s.pend = {}, DeliveryProp(s.kind), "the constructor failed: what was given to it is never delivered")
  IN [s2 EXCEPT !.ctor = TRUE]

\* --------------------------------------------------------------- allocation
Alloc(s, al) ==
  IF al = 0 \/ ~s.ctor THEN s
  ELSE IF s.kind \in NoAllocKinds THEN V(s, "C18", "heap allocation after construction")
  ELSE IF s.kind \in LogAllocKinds
       THEN LET s1 == [s EXCEPT !.allocs = @ + al]
            IN Chk(s1, s1.allocs <= AllocBound(s1), "C18", "allocations exceed the logarithmic bound")
       ELSE s

\* --------------------------------------------------------------- push
StepPushB(s, e) == [s EXCEPT !.pend = @ \cup {e.c}]

Accept(s, c, front) ==
  LET known == s.mt /\ s.lastins # 0
      s1 == [s EXCEPT !.ch = (c :> (IF known THEN [NewChild EXCEPT !.key = s.lastins] ELSE NewChild)) @@ @,
                      !.occ = IF known THEN (s.lastins :> c) @@ @ ELSE @, !.lastins = 0,
                      !.pend = @ \ {c}, !.qn = 0, !.act = TRUE,
                      !.expect = IF s.kind \in OrderedKinds \/ s.kind \in JoinKinds
                                 THEN (IF front THEN <<c>> \o @ ELSE Append(@, c)) ELSE @,
                      !.inputs = IF s.kind \in JoinKinds THEN Append(@, c) ELSE @]
  IN Bump(s1)

StepPush(s, e) ==
  LET c == e.c
      room == IF s.kind \in BoundedKinds THEN NHeld(s) < s.cap ELSE TRUE
      s0 == Alloc(s, e.al)
  IN IF e.res = "ok"
     THEN Accept(Chk(s0, room, "C15", "push accepted although the collection is full"), c, e.how = "front")
     ELSE IF e.res = "full"
     THEN LET s1 == Chk(s0, ~room, "C15", "push refused although there is room")
              s2 == Chk(s1, e.same, "C15", "refused push did not hand back the same future")
          IN [s2 EXCEPT !.pend = @ \ {c}, !.refused = TRUE]
     ELSE \* panic
          LET s1 == Chk(s0, ~room, "C15", "push panicked although there is room")
              s2 == Chk(s1, ~room, DeliveryProp(s.kind), "push panicked although there is room: what was pushed is never delivered")
          \* (the unwinding must have dropped the future by now: if it has not, it stays in `pend` and is a leak at the end)
          IN [s2 EXCEPT !.refused = TRUE]

\* --------------------------------------------------------------- observers
StepObs(s, e) ==
  \* a field the type does not offer is reported as -1 (len, cap) and skipped
  LET len == IF s.kind \in OrderedKinds \cap CollKinds THEN Pop(s) ELSE NHeld(s)
      hasLen == e.len >= 0
      s1 == IF hasLen
            THEN Chk(Chk(s, e.len = len, "C15", "len() disagrees with accepted - yielded"),
                     e.empty = (len = 0), "C15", "is_empty() disagrees")
            ELSE s
      s2 == IF s.kind \in CollKinds
            THEN Chk(s1, e.term = (len = 0), "C15", "is_terminated() disagrees") ELSE s1
      s3 == IF e.cap >= 0 /\ s.kind \in BoundedKinds
            THEN Chk(s2, e.cap = s.cap, "C15", "capacity() changed") ELSE s2
      s4 == IF s.kind = "fub" /\ hasLen THEN Chk(s3, e.len <= s.cap, "C15", "holds more than its capacity") ELSE s3
      \* C17: the hint must bracket the number of items still to be yielded (e.rem, known to the environment)
      s5 == Chk(Chk(s4, e.lo <= e.rem, "C17", "size_hint lower bound exceeds what is still yielded"),
                e.hi = -1 \/ e.hi >= e.rem, "C17", "size_hint upper bound is below what is still yielded")
      s6 == IF s.kind \in CollKinds
            THEN Chk(s5, e.lo = len /\ e.hi = len, "C15", "size_hint disagrees with len") ELSE s5
  IN [s6 EXCEPT !.owed = Max(@, e.lo)]

\* --------------------------------------------------------------- poll frame
StepPoll(s, e) ==
  [s EXCEPT !.inpoll = TRUE, !.pw = e.w, !.woken = FALSE, !.work = 0, !.upPend = FALSE, !.act = FALSE, !.budgeted = FALSE, !.stale0 = s.stale,
            !.ch = [c \in DOMAIN @ |-> IF @[c].st = "held" /\ @[c].np = 0
                                       THEN [@[c] EXCEPT !.ob = TRUE] ELSE @[c]]]

\* NoLostWakeup (C01): at a quiescent point after a poll that answered Pending
LostWake(s) == \E c \in Held(s) : s.ch[c].ob
\* The same fault is also: a merge that answers Pending although a notified source has not been asked (C11: "Pending only
\* while some source is pending"), and a poll that stopped at its budget without waking its task (C13: "when it stops
\* early it has woken its task so the rest is not forgotten").
LostWhy == "Pending/asleep with an un-polled woken or new child and the task waker of the latest poll not invoked"
CheckLost(s) ==
  IF ~s.inpoll /\ s.inwake = 0 /\ s.lastret = "pending" /\ ~s.dead /\ ~s.woken /\ LostWake(s)
  THEN LET s1 == V(s, "C01", LostWhy)
           s2 == IF s.kind \in MergeKinds
                 THEN V(s1, "C11", "Pending although a source that was notified has not been polled, and the task was not woken")
                 ELSE s1
       IN IF s.budgeted THEN V(s2, "C13", "the poll stopped early at its budget without waking its task: the rest is forgotten") ELSE s2
  ELSE s

StepCin(s, e) ==
  LET c == e.c IN
  IF c \notin DOMAIN s.ch
  THEN V(s, "C05", "a child that is not held (finished, dropped or never accepted) was polled")
  ELSE
    LET r  == s.ch[c]
        s1 == Chk(s, r.st = "held", "C05", "finished child polled again")
        \* with wakers on other threads the collection commits to a poll when it clears the queued flag ("popclr"):
        \* that is where the notification is consumed; a wake landing after it legitimately buys another poll
        late == s.mt /\ r.key # 0
        s2 == Chk(s1, IF late THEN r.ar ELSE r.nt, "C12", "child polled without a push, wake or re-arm since its previous poll")
        s3 == Chk(s2, r.addr = 0 \/ r.addr = e.addr, "C08", "child observed at a different address")
        s4 == Chk(s3, s.work + 1 <= WorkBound(s), "C13", "unbounded child polling inside one poll call")
    IN [s4 EXCEPT !.ch[c] = [r EXCEPT !.ob = FALSE, !.nt = IF late THEN @ ELSE FALSE, !.ar = FALSE, !.np = 1, !.key = e.key,
                                      !.addr = e.addr, !.wt = 0],
                  !.occ = (e.key :> c) @@ @,
                  !.work = @ + 1]

StepCout(s, e) ==
  LET c == e.c IN
  IF c \notin DOMAIN s.ch THEN s
  ELSE
    CASE e.resp = "P" -> s
      [] e.resp \in {"R", "X"} ->
           Bump([s EXCEPT !.ch[c].st = "fin", !.tok = @ \cup {<<c, 0>>}, !.qn = 0, !.act = TRUE, !.work = 0,
                          !.errs = IF e.resp = "X" THEN @ \cup {<<c, 0>>} ELSE @,
                          !.firstErr = IF e.resp = "X" /\ @ = 0 THEN c ELSE @])
      [] e.resp = "I" ->
           Bump([s EXCEPT !.ch[c].nt = TRUE, !.ch[c].ob = TRUE, !.tok = @ \cup {<<c, e.k>>}, !.qn = 0, !.act = TRUE, !.work = 0])
      [] e.resp = "E" -> [s EXCEPT !.ch[c].st = "fin", !.qn = 0, !.act = TRUE, !.work = 0]
      [] OTHER -> s

StepCdrop(s, e) ==
  LET c == e.c IN
  IF c \in s.pend THEN [s EXCEPT !.pend = @ \ {c}]     \* consumed by a refused, panicking push
  ELSE IF c \notin DOMAIN s.ch THEN V(s, "C06", "child dropped twice (or a child the crate never held)")
  ELSE
    LET r  == s.ch[c]
        s1 == Chk(s, r.addr = 0 \/ r.addr = e.addr, "C08", "child dropped at a different address")
        \* try_join_all may cancel the remaining inputs once one of them has failed
        s2 == Chk(s1, r.st = "fin" \/ s.indrop \/ (s.kind = "tja" /\ s.firstErr # 0), DeliveryProp(s.kind),
                  "a held child was discarded while the collection is alive")
        \* the slot is vacant now: forget which child its key denoted (keeps the state small in long runs)
        gone == IF r.key \in DOMAIN s.occ /\ s.occ[r.key] = c THEN {r.key} ELSE {}
    IN [s2 EXCEPT !.ch = [x \in DOMAIN @ \ {c} |-> @[x]], !.occ = [k \in DOMAIN @ \ gone |-> @[k]]]

StepOdrop(s, e) ==
  LET t == <<e.c, e.k>> IN
  \* (after a destructor panic the run is outside what the properties describe; output identities may then be
  \*  produced twice by a child that is polled again, so only children are still tracked)
  IF s.poison THEN [s EXCEPT !.out = @ \ {t}, !.tok = @ \ {t}]
  ELSE IF t \in s.out THEN [s EXCEPT !.out = @ \ {t}]
  ELSE IF t \in s.tok
       THEN LET s1 == Chk(s, s.indrop \/ s.unw \/ (s.kind = "tja" /\ s.firstErr # 0),
                          IF s.kind \in CollKinds THEN "C02" ELSE IF s.kind \in AdapterKinds THEN "C10" ELSE "C06",
                          "an output that was never handed out was destroyed while the collection is alive")
            IN [s1 EXCEPT !.tok = @ \ {t}]
       ELSE V(s, "C06", "output dropped twice (or never produced)")

\* --------------------------------------------------------------- child wakers
\* the child whose slot the key denotes gets its notification
Notify(s, k) ==
  LET c  == IF k \in DOMAIN s.occ THEN s.occ[k] ELSE 0
      hit == c \in DOMAIN s.ch /\ s.ch[c].st = "held" /\ s.ch[c].key = k /\ ~s.dead
  IN IF hit THEN [s EXCEPT !.ch[c].ob = TRUE, !.ch[c].nt = TRUE] ELSE s
\* On one thread a waker call is atomic with respect to the polls, so it takes effect where it begins.  With wakers
\* invoked on other threads the call overlaps polls; it takes effect at its flag swap (hook event "wswap", logged
\* under the slot lock), and only if the slot was not queued already.
IsHit(s, k) == LET c == IF k \in DOMAIN s.occ THEN s.occ[k] ELSE 0
               IN c \in DOMAIN s.ch /\ s.ch[c].st = "held" /\ s.ch[c].key = k /\ ~s.dead
StepWakeB(s, e) ==
  LET s1 == [s EXCEPT !.inwake = @ + 1, !.qn = 0, !.act = TRUE,
                      !.stale = IF ~s.mt /\ e.key # 0 /\ ~IsHit(s, e.key) /\ @ < StaleCap THEN @ + 1 ELSE @]
  IN IF s.mt THEN s1 ELSE Notify(s1, e.key)
StepPopclr(s, e) ==
  LET k == e.b * 100000 + e.i
      c == IF k \in DOMAIN s.occ THEN s.occ[k] ELSE 0
      hit == c \in DOMAIN s.ch /\ s.ch[c].st = "held" /\ s.ch[c].key = k
  IN IF s.mt /\ hit THEN [s EXCEPT !.ch[c].ar = s.ch[c].nt, !.ch[c].nt = FALSE] ELSE s
StepWswap(s, e) == IF s.mt /\ e.x = 0 THEN Notify(s, e.b * 100000 + e.i) ELSE s
StepWakeE(s, e) == CheckLost([s EXCEPT !.inwake = IF @ > 0 THEN @ - 1 ELSE 0])

StepTw(s, e) ==
  LET s1 == Chk(s, s.inpoll \/ s.inwake > 0, "C14", "task waker invoked although no child waker was invoked")
  IN IF e.w = s.pw THEN [s1 EXCEPT !.woken = TRUE] ELSE s1

\* --------------------------------------------------------------- poll return
Empty(s) == NHeld(s) = 0 /\ s.tok = {}
Finished(s) == Empty(s) /\ (s.kind \in AdapterKinds => s.upDone)

\* every collection poll that ends without polling a woken child counts against its wait (C13)
Age(s) ==
  LET s1 == [s EXCEPT !.ch = [c \in DOMAIN @ |-> IF @[c].st = "held" /\ @[c].ob
                                                  THEN [@[c] EXCEPT !.wt = IF @ <= WaitBound(s) THEN @ + 1 ELSE @] ELSE @[c]]]
  IN Chk(s1, \A c \in Held(s1) : s1.ch[c].wt <= WaitBound(s1), "C13",
         "a woken child was not polled within the linear bound of collection polls (starvation)")

Yield(s, c, k) ==
  LET t  == <<c, k>>
      s1 == Chk(s, t \in s.tok, DeliveryProp(s.kind), "yielded a value that no held child produced, or yielded it twice")
      \* k = -1 marks an upstream error of a try-adapter: forwarded at once, it has no queue position
      ord == s.kind \in OrderedKinds /\ k # -1
      s2 == IF ord
            THEN Chk(s1, s.expect # <<>> /\ Head(s.expect) = c, "C04", "yielded out of queue order")
            ELSE s1
  IN [s2 EXCEPT !.tok = @ \ {t}, !.out = IF t \in s.tok THEN @ \cup {t} ELSE @,
                !.expect = IF ord /\ @ # <<>> /\ Head(@) = c THEN Tail(@) ELSE
                           IF ord THEN SelectSeq(@, LAMBDA x : x # c) ELSE @]

\* C05: whatever finished during a call has been released when the call returns
Released(s) == Chk(s, \A c \in DOMAIN s.ch : s.ch[c].st # "fin", "C05",
                   "a finished child was not dropped before the poll that observed its completion returned")
\* C04, the stalled form of "not in queue order": the output that is next in queue order exists (its future has finished)
\* and the collection was polled, yet it answered Pending or None instead of yielding it.
HeadStuck(s) == s.kind \in OrderedKinds /\ s.expect # <<>> /\ <<Head(s.expect), 0>> \in s.tok
StepRet(s, e) ==
  LET s0  == Alloc([s EXCEPT !.inpoll = FALSE, !.lastret = e.res, !.unw = FALSE], e.al)
      \* C05: whatever finished during this call has been released by now
      s1  == Released(s0)
      s2  == CASE e.res = "item" -> [Yield(s1, e.c, e.k) EXCEPT !.qn = 0, !.act = TRUE, !.owed = Max(@ - 1, 0)]
               [] e.res \in {"none", "done"} ->
                    [Chk(Chk(s1, Finished(s1), DeliveryProp(s.kind), "reported the end while something is still held, parked or upstream is not exhausted"),
                         s1.owed = 0, "C17", "the stream ended although an earlier size_hint lower bound promised more items")
                      EXCEPT !.qn = 0, !.act = TRUE]
               [] e.res = "pending" ->
                    LET a == Chk(s1, ~Finished(s1), DeliveryProp(s.kind), "Pending although nothing is held, parked or left upstream")
                        b0 == CheckLost(a)
                        \* (a poll that returns with woken children still waiting has stopped early; C13: "when it stops
                        \*  early it has woken its task so the rest is not forgotten" - whatever made it stop)
                        b == IF <<"C01", LostWhy>> \in b0.viol /\ <<"C01", LostWhy>> \notin a.viol
                             THEN V(b0, "C13", "the poll stopped with woken children still waiting and did not wake its task: the rest is forgotten")
                             ELSE b0
                        \* C09: work conserving
                        c == IF s.kind \in AdapterKinds /\ s.n >= 1
                             THEN Chk(b, Pop(b) >= s.n \/ s.upDone \/ s.upPend, "C09",
                                      "Pending with spare capacity although upstream was not asked or not pending")
                             ELSE b
                        \* C14: quiet phase
                        d == IF c.act THEN [c EXCEPT !.qn = 0]
                             ELSE IF c.woken
                             THEN Chk([c EXCEPT !.qn = @ + 1], c.qn + 1 < NHeld(c) + 2, "C14",
                                      IF c.budgeted /\ c.bmax = 61 /\ c.stale0 >= 61
                                      THEN "task woken again and again although no child waker was invoked in this phase: stale wake-ups of finished children, fired earlier, are charged to the poll budget of 61"
                                      ELSE "task woken again and again although no child waker was invoked")
                             ELSE [c EXCEPT !.qn = 0]
                    IN [d EXCEPT !.stale = IF d.budgeted THEN Max(@ - 61, 0) ELSE 0]
               [] OTHER -> s1
      s3  == IF e.res \in {"pending", "none"} /\ HeadStuck(s1)
             THEN V(s2, "C04", "the output next in queue order is ready but the poll did not yield it") ELSE s2
  IN Age(s3)

\* --------------------------------------------------------------- drop / end
StepDropB(s, e) == [s EXCEPT !.indrop = TRUE]
StepDropE(s, e) ==
  \* (after a destructor has panicked, leaking what is left is the safe answer; releasing twice never is)
  LET s1 == Chk(s, s.poison \/ DOMAIN s.ch = {}, "C06", "a child was not dropped with its collection (leak)")
      s2 == Chk(s1, s.poison \/ s.tok = {}, "C06", "an output owned by the collection was not dropped with it (leak)")
  IN [s2 EXCEPT !.indrop = FALSE, !.dead = TRUE, !.inpoll = FALSE, !.unw = FALSE]

StepEnd(s, e) ==
  LET s1 == Chk(s, s.poison \/ (DOMAIN s.ch = {} /\ s.pend = {}), "C06", "a child was never dropped (leak)")
      s2 == Chk(s1, s.poison \/ (s.tok = {} /\ s.out = {}), "C06", "an output was never dropped (leak)")
      \* the upstream given to an adapter (observed through its address: recorded runs only)
      s3 == Chk(s2, s.poison \/ s.upaddr = 0 \/ s.updrops = 1, "C06", "the upstream stream was never dropped (leak)")
  IN s3

StepDrainFail(s, e) ==
  V(s, DeliveryProp(s.kind), "kept being polled with every child ready but never delivered everything / never ended")

\* --------------------------------------------------------------- adapters
\* the upstream of an adapter is a pinned stream as well (C08): every poll and its drop see the address of its first poll
UpAddr(s, e, what) ==
  IF "addr" \in DOMAIN e
  THEN [Chk(s, s.upaddr = 0 \/ s.upaddr = e.addr, "C08", what) EXCEPT !.upaddr = IF @ = 0 THEN e.addr ELSE @]
  ELSE s
StepUp(s, e) ==
  LET s0 == UpAddr(Chk(s, ~s.upDone, "C10", "upstream polled again after it ended"), e, "upstream observed at a different address")
  IN CASE e.resp = "P" -> [s0 EXCEPT !.upPend = TRUE]
       [] e.resp = "E" -> [s0 EXCEPT !.upDone = TRUE, !.qn = 0, !.act = TRUE]
       [] e.resp = "I" ->
            LET s1 == IF s.n >= 1
                      THEN Chk(s0, NHeld(s0) + 1 <= s.n, "C09", "more than n unfinished futures at once")
                      ELSE s0
                s2 == IF s.kind \in {"bo", "tbo"}
                      THEN Chk(s1, Pop(s1) + 1 <= s.n, "C16", "more than n items pulled but not yet yielded")
                      ELSE s1
            \* (for_each_concurrent scans its futures again after every item it pulls: the work bound counts from here)
            IN [Accept(s2, e.c, FALSE) EXCEPT !.work = 0]
       [] e.resp = "X" ->     \* upstream error item: must be forwarded exactly once, as an item
            Bump([s0 EXCEPT !.tok = @ \cup {<<e.c, -1>>}, !.errs = @ \cup {<<e.c, -1>>}, !.qn = 0, !.act = TRUE])
       [] OTHER -> s0

\* --------------------------------------------------------------- joins
StepVec(s, e) ==
  LET v  == e.v
      s0 == Released(Alloc([s EXCEPT !.inpoll = FALSE, !.lastret = "vec"], e.al))
      ok == \A i \in 1..Len(v) : <<v[i], 0>> \in s.tok
      s1 == Chk(s0, ok, "C07", "returned a Vec element that no input produced")
      full == s.resolved \/ (Len(v) = Len(s.inputs) /\ NHeld(s) = 0)
      s2 == Chk(s1, full, "C07", "resolved before every input resolved")
      s3 == Chk(s2, s.resolved \/ ~ok \/ v = s.inputs, "C04", "output of input i is not at index i")
      s4 == Chk(s3, s.kind = "ja" \/ s.resolved \/ s.errs = {}, "C07", "Ok although an input failed")
      moved == {<<v[i], 0>> : i \in 1..Len(v)} \cap s.tok
  IN Age([s4 EXCEPT !.tok = @ \ moved, !.out = @ \cup moved, !.resolved = TRUE])

StepErr(s, e) ==
  LET t  == <<e.c, 0>>
      s0 == Released(Alloc([s EXCEPT !.inpoll = FALSE, !.lastret = "err"], e.al))
      s1 == Chk(s0, t \in s.tok /\ t \in s.errs, "C07", "returned an error that no input produced")
      s2 == Chk(s1, s.resolved \/ e.c = s.firstErr, "C07", "error is not that of the first input observed to fail")
  IN Age([s2 EXCEPT !.tok = @ \ {t}, !.out = IF t \in s.tok THEN @ \cup {t} ELSE @, !.resolved = TRUE])

\* --------------------------------------------------------------- dispatcher
Step(s, e) ==
  CASE e.e = "reset"  -> StepReset(s, e)
    [] e.e = "new"    -> StepNew(s, e)
    [] e.e = "push_b" -> StepPushB(s, e)
    [] e.e = "push"   -> StepPush(s, e)
    [] e.e = "obs"    -> StepObs(s, e)
    [] e.e = "poll"   -> StepPoll(s, e)
    [] e.e = "cin"    -> StepCin(s, e)
    [] e.e = "cout"   -> StepCout(s, e)
    [] e.e = "cdrop"  -> StepCdrop(s, e)
    [] e.e = "budget" -> [s EXCEPT !.budgeted = TRUE, !.bmax = e.max]
    [] e.e = "dpanic" -> [s EXCEPT !.unw = TRUE, !.poison = TRUE]
    [] e.e = "odrop"  -> StepOdrop(s, e)
    [] e.e = "wake_b" -> StepWakeB(s, e)
    [] e.e = "wake_e" -> StepWakeE(s, e)
    [] e.e = "wswap"  -> StepWswap(s, e)
    [] e.e = "popclr" -> StepPopclr(s, e)
    [] e.e = "ins"    -> IF s.mt THEN [s EXCEPT !.lastins = e.b * 100000 + e.i] ELSE s
    [] e.e = "tw"     -> StepTw(s, e)
    [] e.e = "ret"    -> StepRet(s, e)
    [] e.e = "vec"    -> StepVec(s, e)
    [] e.e = "err"    -> StepErr(s, e)
    [] e.e = "up"     -> StepUp(s, e)
    [] e.e = "updrop" -> [UpAddr(Chk(s, s.updrops = 0, "C06", "the upstream stream was dropped twice"), e, "upstream dropped at a different address")
                           EXCEPT !.updrops = @ + 1]
    [] e.e = "dropc_b"-> StepDropB(s, e)
    [] e.e = "dropc_e"-> StepDropE(s, e)
    [] e.e = "drain_fail" -> StepDrainFail(s, e)
    [] e.e = "end"    -> StepEnd(s, e)
    \* the harness watchdog: the crate did not come back from a call
    [] e.e = "hang"   -> IF e.where = "poll" THEN V(s, "C13", "a poll call did not return (unbounded work inside one poll)")
                         ELSE IF e.where = "drop" THEN V(s, "C06", "dropping the collection did not terminate: its children are never released")
                         ELSE s
    [] OTHER -> s      \* events of other layers (hook probes, notes) are not this machine's business

RECURSIVE RunFrom(_, _, _)
RunFrom(s, evs, i) == IF i > Len(evs) THEN s ELSE RunFrom(Step(s, evs[i]), evs, i + 1)
Run(s, evs) == RunFrom(s, evs, 1)
=============================================================================
