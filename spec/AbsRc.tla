------------------------------- MODULE AbsRc -------------------------------
(***************************************************************************)
(* Property machine for C03 over the probe events of the shared waker      *)
(* block (cfg(futures_buffered_verif) hooks in src/waker_list.rs):         *)
(*   balloc b cap | bfree b ok t | hdrop b | vt op b i hb t |              *)
(*   strong op b old t | twc / twd (task waker cloned / destroyed inside   *)
(*   the crate) | regb / rega (WakerList::register) | end                  *)
(* It is the trace-side counterpart of RefCount.tla: the same accounting   *)
(* (strong = owners, free exactly once at 1 -> 0 by the decrementing       *)
(* thread, nothing touches a released block, everything released at the    *)
(* end), evaluated on every recorded execution of the real crate.          *)
(* exact = TRUE: events are totally ordered as they happened (one thread,  *)
(* or gate-scheduled threads); FALSE: free-running threads, where the log  *)
(* order of two racing atomic operations may differ from their real order, *)
(* so only order-insensitive clauses are evaluated.                        *)
(***************************************************************************)
EXTENDS Naturals, Integers, Sequences, FiniteSets, TLC

FreshRc == [ run |-> 0, exact |-> TRUE,
             blk |-> <<>>,      \* b -> [live, cap, cnt, incs, decs, final, frees]
             inreg |-> {},      \* threads inside WakerList::register
             infree |-> {},     \* threads that are releasing a block
             twc |-> 0, twd |-> 0,
             viol |-> {} ]
V(s, why) == [s EXCEPT !.viol = @ \cup {<<"C03", why>>}]
Chk(s, ok, why) == IF ok THEN s ELSE V(s, why)
Known(s, b) == b \in DOMAIN s.blk
Live(s, b) == Known(s, b) /\ s.blk[b].live
\* a thread that does anything else has left drop_inner
Leave(s, e) == IF "t" \in DOMAIN e THEN [s EXCEPT !.infree = @ \ {e.t}] ELSE s

StepRc(s0, e) ==
  LET s == IF e.e \in {"twd", "bfree"} THEN s0 ELSE Leave(s0, e) IN
  CASE e.e = "reset" -> [FreshRc EXCEPT !.run = e.run, !.exact = IF "exact" \in DOMAIN e THEN e.exact ELSE TRUE]
    [] e.e = "balloc" ->
         [s EXCEPT !.blk = (e.b :> [live |-> TRUE, cap |-> e.cap, cnt |-> 1, incs |-> 0, decs |-> 0, final |-> -1, frees |-> 0, q |-> {}]) @@ @]
    [] e.e = "vt" ->
         LET s1 == Chk(s, Live(s, e.b), "a child waker was used after its block had been released (use after free)")
             s2 == Chk(s1, e.hb = e.b, "a child waker resolved to the wrong shared header")
         IN IF Known(s, e.b) THEN Chk(s2, e.i >= 0 /\ e.i <= s.blk[e.b].cap, "a child waker points outside the slots of its block") ELSE s2
    [] e.e = "strong" ->
         IF ~Known(s, e.b) THEN V(s, "reference count of an unknown block touched")
         ELSE LET r  == s.blk[e.b]
                  s1 == Chk(s, r.live, "reference count touched after the block had been released")
                  s2 == Chk(s1, e.old >= 1, "reference count was zero (or negative) when it was touched")
                  s3 == IF s.exact THEN Chk(s2, e.old = r.cnt, "reference count out of step with the number of owners") ELSE s2
              IN IF e.op = "inc"
                 THEN [s3 EXCEPT !.blk[e.b].cnt = @ + 1, !.blk[e.b].incs = @ + 1]
                 ELSE LET s4 == Chk(s3, ~(e.old = 1 /\ r.final # -1), "the last reference was given up twice")
                      IN [s4 EXCEPT !.blk[e.b].cnt = @ - 1, !.blk[e.b].decs = @ + 1,
                                    !.blk[e.b].final = IF e.old = 1 THEN e.t ELSE @]
    [] e.e = "bfree" ->
         IF ~Known(s, e.b) THEN V(s, "an unknown block was released")
         ELSE LET r  == s.blk[e.b]
                  s1 == Chk(s, r.live, "the block was released twice (double free)")
                  s2 == Chk(s1, r.final = e.t, "the block was released by a thread that did not give up the last reference")
                  s3 == Chk(s2, r.incs + 1 = r.decs, "the block was released while references to it exist")
                  s4 == Chk(s3, e.ok, "the block was released with a layout different from its allocation")
              IN [s4 EXCEPT !.blk[e.b].live = FALSE, !.blk[e.b].frees = @ + 1, !.infree = @ \cup {e.t}]
    \* every other probe inside the crate names the block it works on: it must be a live one
    [] e.e = "rega" -> [Chk(s, Live(s, e.b), "the shared block was used after it had been released (use after free), or an unknown block was used")
                         EXCEPT !.inreg = @ \ {e.t}]
    [] e.e \in {"wswap", "wenq", "wnotified", "wdone", "pop", "popclr", "pswap", "penq", "ins", "vac"} ->
         LET s1 == Chk(s, Live(s, e.b), "the shared block was used after it had been released (use after free), or an unknown block was used")
             s2 == IF Known(s, e.b) /\ "i" \in DOMAIN e
                   THEN Chk(s1, e.i >= 0 /\ e.i < s.blk[e.b].cap, "a slot outside the waker block was used (the block has fewer slots than the collection hands out)")
                   ELSE s1
         \* the ready queue is an intrusive list: a slot is linked at most once at a time (exact order of events only)
         IN IF ~Known(s, e.b) \/ ~s.exact \/ "i" \notin DOMAIN e THEN s2
            ELSE IF e.e \in {"penq", "wenq"}
                 THEN [Chk(s2, e.i \notin s.blk[e.b].q,
                           "a slot was linked into the ready queue while it was linked already (intrusive node in two positions: corrupted list, racing link writes)")
                        EXCEPT !.blk[e.b].q = @ \cup {e.i}]
            ELSE IF e.e = "pop" THEN [s2 EXCEPT !.blk[e.b].q = @ \ {e.i}]
            ELSE s2
    [] e.e = "regb" -> [Chk(s, Live(s, e.b), "the shared block was used after it had been released (use after free), or an unknown block was used")
                         EXCEPT !.inreg = @ \cup {e.t}]
    [] e.e = "twc" -> [s EXCEPT !.twc = @ + 1]
    [] e.e = "twd" ->
         [Chk(s, e.t \in s.inreg \/ e.t \in s.infree,
              "the registered task waker was destroyed outside register() and outside the release of the block")
           EXCEPT !.twd = @ + 1]
    [] e.e = "end" ->
         LET s1 == Chk(s, \A b \in DOMAIN s.blk : ~s.blk[b].live, "a waker block was never released although the collection and all its wakers are gone (leak)")
         IN Chk(s1, s.twc = s.twd, "a task waker cloned by the crate was never dropped (leak)")
    [] OTHER -> s
=============================================================================
