------------------------------- MODULE Coll -------------------------------
(***************************************************************************)
(* Implementation-shaped specification ("Impl" reading) of the collection  *)
(* family of futures-buffered:                                             *)
(*   fub = FuturesUnorderedBounded      fu = FuturesUnordered              *)
(*   fob = FuturesOrderedBounded        fo = FuturesOrdered                *)
(*   mb  = MergeBounded                 mu = MergeUnbounded                *)
(* One group = one PinSlotMap (LIFO free list) + one WakerList (per-slot   *)
(* "queued" flag, FIFO ready queue, one-shot task-waker registration).     *)
(* The poll loop of futures_unordered_bounded.rs (budget MAX), the group   *)
(* loop of futures_unordered.rs / merge_unbounded.rs (cursor, remove,      *)
(* keep-last, re-insert), the re-arm loop of merge_bounded.rs and the      *)
(* park-and-continue loop of futures_ordered*.rs are transcribed           *)
(* literally.  Children are nondeterministic (answer, self-wake, wake of   *)
(* another child's stored - possibly stale - waker inside the poll).       *)
(*                                                                         *)
(* Every action emits the events the Rust harness would record for it;     *)
(* the Abs machine consumes them in the same step (variable m), so TLC     *)
(* checks  Coll || Abs |= no property violation  for all histories, and    *)
(* the emitted event list (variable hist, Gen runs only) is both the       *)
(* scenario and the predicted trace that the real crate is replayed on.    *)
(***************************************************************************)
EXTENDS Abs

CONSTANTS Kind,      \* one of the six kinds above
          Cap0,      \* capacity of the (first) group
          NInit,     \* bounded kinds: number of children given at construction (from_iter; then Cap0 = NInit), else 0
          NC,        \* children 1..NC, pushed in this order
          Budget,    \* MAX of poll_inner_no_remove (61 in the code)
          NW,        \* task wakers 1..NW
          MaxPolls,  \* polls per child
          MaxItems,  \* items per merged source
          MaxWakes,  \* waker invocations by the environment between polls
          GenMode,   \* TRUE: record emitted events in hist
          CursorFix, \* TRUE: repaired group rotation (advance the cursor after a yield)
          AllowFront,\* ordered kinds: push_front too
          Perpetual, \* TRUE: children may be polled without bound (np saturates at MaxPolls): starvation lassos
          Mut        \* "none", or the name of a deliberately broken variant (non-vacuity controls)

VARIABLES st, m, hist
vars == <<st, m, hist>>

Grouped  == Kind \in {"fu", "fo", "mu"}
IsOrd    == Kind \in {"fob", "fo"}
IsMrg    == Kind \in {"mb", "mu"}
Children == 1..NC

Key(b, i) == b * 100000 + i
NewGrp(cap) == [cap |-> cap, sl |-> [i \in 0..cap-1 |-> 0], free |-> [j \in 1..cap |-> j - 1],
                q |-> <<>>, fl |-> [i \in 0..cap-1 |-> FALSE], reg |-> 0]
Filled(g) == Cardinality({i \in DOMAIN g.sl : g.sl[i] # 0})
RemoveAt(seq, k) == [j \in 1..Len(seq)-1 |-> IF j < k THEN seq[j] ELSE seq[j+1]]
SetToSeq(S) == CHOOSE f \in [1..Cardinality(S) -> S] : \A a, b \in 1..Cardinality(S) : a < b => f[a] < f[b]

\* ----------------------------------------------------------------- observers, as the code computes them
SumFilled(s) == LET RECURSIVE F(_) F(k) == IF k = 0 THEN 0 ELSE Filled(s.blk[s.groups[k]]) + F(k - 1) IN F(Len(s.groups))
ObsEv(s) ==
  LET np == Cardinality(s.parked)
      len == CASE Kind = "fub" -> Filled(s.blk[1])
               [] Kind = "fu"  -> s.rem
               [] Kind = "fob" -> Filled(s.blk[1]) + np
               [] Kind = "fo"  -> s.rem + np
               [] Kind = "mb"  -> -1
               [] Kind = "mu"  -> SumFilled(s)
      coll == Kind \in CollKinds
  IN [e |-> "obs", len |-> len, empty |-> IF Kind = "mb" THEN FALSE ELSE len = 0,
      term |-> IF coll THEN len = 0 ELSE FALSE,
      cap |-> IF Kind = "fub" THEN s.blk[1].cap ELSE -1,
      lo |-> IF coll THEN len ELSE 0, hi |-> IF coll THEN len ELSE -1, rem |-> IF coll THEN len ELSE 0]

InitGrp == IF NInit = 0 THEN NewGrp(Cap0)
           ELSE [cap |-> NInit, sl |-> [i \in 0..NInit-1 |-> i + 1], free |-> <<>>,
                 q |-> [j \in 1..NInit |-> j - 1], fl |-> [i \in 0..NInit-1 |-> TRUE], reg |-> 0]
Init0 == [ groups |-> <<1>>, blk |-> <<InitGrp>>, cursor |-> 0, rem |-> 0,
           cs |-> [c \in Children |-> IF c <= NInit THEN "held" ELSE "unborn"],
           loc |-> [c \in Children |-> IF c <= NInit THEN <<1, c - 1>> ELSE <<0, 0>>],
           np |-> [c \in Children |-> 0], ni |-> [c \in Children |-> 0], nextc |-> NInit + 1,
           pc |-> "idle", pw |-> 0, cnt |-> 0, iter |-> 0, cb |-> 1, ci |-> 0, cc |-> 0, rk |-> 0,
           parked |-> {}, idx |-> [c \in Children |-> IF c <= NInit THEN c - 1 ELSE 0], inc |-> NInit, outc |-> 0,
           out |-> {}, nw |-> 0 ]

InitEvs == <<[e |-> "reset", kind |-> Kind, cap |-> IF NInit = 0 THEN Cap0 ELSE NInit, run |-> 1]>>
           \o [c \in 1..NInit |-> [e |-> "push_b", c |-> c]]
           \o <<[e |-> "new", res |-> "ok", al |-> 0]>>
           \o [c \in 1..NInit |-> [e |-> "push", c |-> c, how |-> "init", res |-> "ok", same |-> TRUE, al |-> 0]]
           \o <<ObsEv(Init0)>>

Init == /\ st = Init0
        /\ m = Run(Fresh, InitEvs)
        /\ hist = IF GenMode THEN InitEvs ELSE <<>>

Emit(evs) == /\ m' = Run(m, evs)
             /\ hist' = IF GenMode THEN hist \o evs ELSE hist

\* ----------------------------------------------------------------- child wakers
\* invocation of the waker of slot (b, i): flag swap, enqueue, notify
WakeEff(s, b, i) ==
  LET g == s.blk[b] IN
  IF g.fl[i] THEN <<s, <<>>>>
  ELSE LET s1 == [s EXCEPT !.blk[b].fl[i] = TRUE, !.blk[b].q = Append(@, i)] IN
       IF g.reg # 0 /\ Mut # "no_notify" THEN <<[s1 EXCEPT !.blk[b].reg = 0], <<[e |-> "tw", w |-> g.reg]>>>>
       ELSE <<s1, <<>>>>
WakeCall(s, c) ==
  LET b == s.loc[c][1] i == s.loc[c][2] r == WakeEff(s, b, i) IN
  <<r[1], <<[e |-> "wake_b", c |-> c, key |-> Key(b, i)]>> \o r[2] \o <<[e |-> "wake_e"]>>>>
\* WakerList::push(i): flag swap and enqueue, no notify
Arm(s, b, i) == IF s.blk[b].fl[i] THEN s ELSE [s EXCEPT !.blk[b].fl[i] = TRUE, !.blk[b].q = Append(@, i)]

\* ----------------------------------------------------------------- the poll, up to the next child poll
RetEv(res, c, k) == [e |-> "ret", res |-> res, c |-> c, k |-> k, al |-> 0]
Finish(s, evs, res, c, k) ==
  LET s1 == [s EXCEPT !.pc = "idle", !.out = IF res = "item" THEN @ \cup {<<c, k>>} ELSE @]
  IN <<s1, evs \o <<RetEv(res, c, k), ObsEv(s1)>>>>

RECURSIVE Go(_, _, _)
Go(s, evs, k) ==
  CASE k = "inner" ->
         IF Grouped
         THEN IF s.groups = <<>> THEN Go(s, evs, "in_none")
              ELSE Go([s EXCEPT !.iter = Len(s.groups)], evs, "loop")
         ELSE Go([s EXCEPT !.cb = s.groups[1]], evs, "enter")
    [] k = "loop" ->
         IF s.iter = 0 THEN Go(s, evs, "in_pending")
         ELSE LET cur == IF s.cursor >= Len(s.groups) THEN 0 ELSE s.cursor IN
              Go([s EXCEPT !.cursor = cur, !.iter = @ - 1, !.cb = s.groups[cur + 1]], evs, "enter")
    [] k = "enter" ->      \* poll_inner_no_remove: is_empty test, register, fresh budget
         IF Filled(s.blk[s.cb]) = 0 THEN Go(s, evs, "g_none")
         ELSE Go([s EXCEPT !.blk[s.cb].reg = IF Mut = "register_once" /\ @ # 0 THEN @ ELSE s.pw, !.cnt = 0], evs, "grp")
    [] k = "grp" ->
         LET g == s.blk[s.cb] IN
         IF s.cnt + 1 > Budget
         THEN Go([s EXCEPT !.cnt = @ + 1],
                 IF Mut = "no_budget_wake" THEN evs ELSE Append(evs, [e |-> "tw", w |-> s.pw]), "g_pending")
         ELSE IF g.q = <<>> THEN Go([s EXCEPT !.cnt = @ + 1], evs, "g_pending")
         ELSE LET lifo == Mut = "lifo"
                  i == IF lifo THEN g.q[Len(g.q)] ELSE Head(g.q)
                  c == g.sl[i]
                  s1 == [s EXCEPT !.cnt = @ + 1, !.blk[s.cb].q = IF lifo THEN SubSeq(@, 1, Len(@) - 1) ELSE Tail(@),
                                  !.blk[s.cb].fl[i] = Mut = "no_flag_clear"] IN
              IF c = 0 THEN Go(s1, evs, "grp")
              ELSE <<[s1 EXCEPT !.pc = "child", !.ci = i, !.cc = c],
                     Append(evs, [e |-> "cin", c |-> c, key |-> Key(s.cb, i), addr |-> Key(s.cb, i)])>>
    [] k = "g_none" ->
         IF ~Grouped THEN Go(s, evs, "in_none")
         ELSE LET b  == s.cb
                  gs == RemoveAt(s.groups, s.cursor + 1) IN
              IF gs = <<>> THEN Go([s EXCEPT !.groups = <<b>>], evs, "in_none")
              ELSE IF s.cursor = Len(gs)
                   THEN Go([s EXCEPT !.groups = Append(gs, b), !.cursor = 0], evs, "loop")
                   ELSE Go([s EXCEPT !.groups = gs], evs, "loop")
    [] k = "g_pending" ->
         IF ~Grouped THEN Go(s, evs, "in_pending")
         ELSE Go([s EXCEPT !.cursor = @ + 1], evs, "loop")
    [] k = "g_ready" ->
         IF ~Grouped THEN Go(s, evs, "in_ready")
         ELSE Go([s EXCEPT !.rem = IF Kind = "mu" THEN @ ELSE @ - 1,
                           !.cursor = IF CursorFix THEN @ + 1 ELSE @], evs, "in_ready")
    [] k = "in_none"    -> Finish(s, evs, "none", 0, 0)
    [] k = "in_pending" -> Finish(s, evs, "pending", 0, 0)
    [] k = "in_ready"   ->
         IF ~IsOrd THEN Finish(s, evs, "item", s.cc, s.rk)
         ELSE IF s.idx[s.cc] = s.outc THEN Finish([s EXCEPT !.outc = @ + 1], evs, "item", s.cc, 0)
         ELSE Go([s EXCEPT !.parked = @ \cup {s.cc}], evs, "inner")

\* ----------------------------------------------------------------- environment actions
PushEvs(c, how, res) == <<[e |-> "push_b", c |-> c],
                          [e |-> "push", c |-> c, how |-> how, res |-> res, same |-> TRUE, al |-> 0]>>

\* insert child c into group b (which has room)
Insert(s, b, c) ==
  LET g == s.blk[b] i == Head(g.free) IN
  Arm([s EXCEPT !.blk[b].sl[i] = c, !.blk[b].free = Tail(@), !.cs[c] = "held", !.loc[c] = <<b, i>>,
                !.nextc = @ + 1], b, i)

Push(how) ==
  /\ st.pc = "idle" /\ st.nextc <= NC
  /\ how = "front" => (IsOrd /\ AllowFront)
  /\ LET c    == st.nextc
         last == st.groups[Len(st.groups)]
         full == st.blk[last].free = <<>>
         \* the ordering layer assigns the position before the inner push
         s0   == IF ~IsOrd THEN st
                 ELSE IF how = "front" THEN [st EXCEPT !.outc = @ - 1, !.idx[c] = st.outc - 1]
                 ELSE [st EXCEPT !.inc = @ + 1, !.idx[c] = st.inc]
     IN IF ~full
        THEN LET s1 == Insert([s0 EXCEPT !.rem = IF Kind \in {"fu", "fo"} THEN @ + 1 ELSE @], last, c) IN
             /\ st' = s1 /\ Emit(PushEvs(c, how, "ok") \o <<ObsEv(s1)>>)
        ELSE IF Grouped
        THEN LET nb == Len(st.blk) + 1
                 s1 == [s0 EXCEPT !.blk = Append(@, NewGrp(2 * st.blk[last].cap)), !.groups = Append(@, nb),
                                  !.rem = IF Kind \in {"fu", "fo"} THEN @ + 1 ELSE @]
                 s2 == Insert(s1, nb, c) IN
             /\ st' = s2
             /\ Emit(<<[e |-> "push_b", c |-> c],
                       [e |-> "push", c |-> c, how |-> how, res |-> "ok", same |-> TRUE, al |-> 2]>> \o <<ObsEv(s2)>>)
        ELSE \* bounded and full: try_push hands the future back, nothing changes
             /\ st' = [st EXCEPT !.cs[c] = "refused", !.nextc = @ + 1]
             /\ Emit(PushEvs(c, how, "full") \o <<ObsEv(st)>>)

PollBegin(w) ==
  /\ st.pc = "idle"
  /\ LET s0 == [st EXCEPT !.pw = w]
         pe == <<[e |-> "poll", w |-> w]>>
         hd == {c \in st.parked : st.idx[c] = st.outc}
         r  == IF IsOrd /\ hd # {}
               THEN LET c == CHOOSE x \in hd : TRUE IN
                    Finish([s0 EXCEPT !.parked = @ \ {c}, !.outc = @ + 1], pe, "item", c, 0)
               ELSE Go(s0, pe, "inner")
     IN st' = r[1] /\ Emit(r[2])

\* the child being polled answers; it may first invoke its own waker or the stored waker of another child
Stash(s) == {c \in Children : s.np[c] > 0}
ChildStep ==
  /\ st.pc = "child"
  /\ LET c == st.cc b == st.cb i == st.ci IN
     /\ Perpetual \/ st.np[c] < MaxPolls
     /\ \E act \in {0} \cup Stash(st) \cup {c} :
        \E resp \in (IF IsMrg THEN {"P", "I", "E"} ELSE {"P", "R"}) :
          /\ resp = "I" => st.ni[c] < MaxItems
          /\ LET s0 == [st EXCEPT !.np[c] = IF @ < MaxPolls THEN @ + 1 ELSE @]
                 wk == IF act = 0 THEN <<s0, <<>>>> ELSE WakeCall(s0, act)
                 s1 == wk[1]
                 k  == IF resp = "I" THEN s1.ni[c] + 1 ELSE 0
                 co == <<[e |-> "cout", c |-> c, resp |-> resp, k |-> k]>>
                 cd == <<[e |-> "cdrop", c |-> c, addr |-> Key(b, i)]>>
                 vac == [s1 EXCEPT !.blk[b].sl[i] = 0, !.blk[b].free = <<i>> \o @, !.cs[c] = "done"]
                 r  == CASE resp = "P" -> Go([s1 EXCEPT !.pc = "idle"], wk[2] \o co, "grp")
                         [] resp = "R" -> Go([vac EXCEPT !.pc = "idle", !.rk = 0], wk[2] \o co \o cd, "g_ready")
                         [] resp = "I" -> Go(Arm([s1 EXCEPT !.pc = "idle", !.ni[c] = k, !.rk = k], b, i),
                                             wk[2] \o co, "g_ready")
                         [] resp = "E" -> Go([vac EXCEPT !.pc = "idle"], wk[2] \o co \o cd, "enter")
             IN st' = r[1] /\ Emit(r[2])

Wake(c) ==
  /\ st.pc \in {"idle", "dead"} /\ st.np[c] > 0 /\ st.nw < MaxWakes
  /\ LET r == WakeCall([st EXCEPT !.nw = @ + 1], c) IN st' = r[1] /\ Emit(r[2])

\* drop the collection: children in group order, slot order; then the parked outputs
DropColl ==
  /\ st.pc = "idle"
  /\ LET kids == {c \in Children : st.cs[c] = "held"}
         ks   == SetToSeq({Key(st.loc[c][1], st.loc[c][2]) : c \in kids})
         byKey(k) == CHOOSE c \in kids : Key(st.loc[c][1], st.loc[c][2]) = k
         cds  == [j \in 1..Len(ks) |-> [e |-> "cdrop", c |-> byKey(ks[j]), addr |-> ks[j]]]
         ps   == SetToSeq(st.parked)
         ods  == [j \in 1..Len(ps) |-> [e |-> "odrop", c |-> ps[j], k |-> 0]]
     IN /\ st' = [st EXCEPT !.pc = "dead", !.cs = [c \in Children |-> IF c \in kids THEN "done" ELSE @[c]],
                            !.parked = {}]
        /\ Emit(<<[e |-> "dropc_b"]>> \o cds \o ods \o <<[e |-> "dropc_e"]>>)

\* the caller drops what it received; end of the run
End ==
  /\ st.pc = "dead"
  /\ LET os  == SetToSeq({t[1] * 1000 + t[2] : t \in st.out})
         ods == [j \in 1..Len(os) |-> [e |-> "odrop", c |-> os[j] \div 1000, k |-> os[j] % 1000]]
     IN /\ st' = [st EXCEPT !.pc = "end", !.out = {}]
        /\ Emit(ods \o <<[e |-> "end"]>>)

Next == \/ \E how \in {"back", "front"} : Push(how)
        \/ \E w \in 1..NW : PollBegin(w)
        \/ ChildStep
        \/ \E c \in Children : Wake(c)
        \/ DropColl
        \/ End

Spec == Init /\ [][Next]_vars

\* ----------------------------------------------------------------- what TLC checks
NoViolation == m.viol = {}
\* structural invariants of the implementation-shaped state
QueueMatchesFlags == \A b \in DOMAIN st.blk : LET g == st.blk[b] IN
                       /\ \A i \in DOMAIN g.fl : g.fl[i] <=> \E j \in 1..Len(g.q) : g.q[j] = i
                       /\ \A a, d \in 1..Len(g.q) : g.q[a] = g.q[d] => a = d
FreeListSound == \A b \in DOMAIN st.blk : LET g == st.blk[b] IN
                   /\ \A j \in 1..Len(g.free) : g.sl[g.free[j]] = 0
                   /\ Len(g.free) + Filled(g) = g.cap
RemIsHeld == (Kind \in {"fu", "fo"} /\ st.pc \notin {"dead", "end"}) => st.rem = Cardinality({c \in Children : st.cs[c] = "held"})
LocSound == \A c \in Children : st.cs[c] = "held" => st.blk[st.loc[c][1]].sl[st.loc[c][2]] = c
\* a held child that is owed a poll is queued (or is the one being polled)
ObligQueued == \A c \in Children :
                 (st.cs[c] = "held" /\ c \in DOMAIN m.ch /\ m.ch[c].nt /\ ~(st.pc = "child" /\ st.cc = c))
                 => st.blk[st.loc[c][1]].fl[st.loc[c][2]]
\* every non-last group is non-empty or is about to be visited; the last group is kept
GroupsSound == /\ Len(st.groups) >= 1
               /\ \A a, d \in 1..Len(st.groups) : st.groups[a] = st.groups[d] => a = d

View == <<st, m>>
\* Gen: print the recorded run when it ends
EmitScn == (st.pc = "end") => PrintT(<<"SCN", ToString(Len(hist))>>)
=============================================================================
