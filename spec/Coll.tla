------------------------------- MODULE Coll -------------------------------
(***************************************************************************)
(* Implementation-shaped specification ("Impl" reading) of futures-buffered *)
(*   fub = FuturesUnorderedBounded      fu = FuturesUnordered              *)
(*   fob = FuturesOrderedBounded        fo = FuturesOrdered                *)
(*   mb  = MergeBounded                 mu = MergeUnbounded                *)
(*   bu / bo  = buffered_unordered / buffered_ordered                      *)
(*   tbu / tbo = try_buffered_unordered / try_buffered_ordered             *)
(*   fe  = for_each_concurrent          ja / tja = join_all / try_join_all *)
(* One group = one PinSlotMap (LIFO free list) + one WakerList (per-slot   *)
(* "queued" flag, FIFO ready queue, one-shot task-waker registration).     *)
(* Transcribed literally: the poll loop of futures_unordered_bounded.rs    *)
(* (budget MAX), the group loop of futures_unordered.rs /                  *)
(* merge_unbounded.rs (cursor, remove, keep-last, re-insert), the re-arm   *)
(* loop of merge_bounded.rs, the park-and-continue loop of                 *)
(* futures_ordered*.rs, the fill loops and termination tests of            *)
(* buffered/*.rs and try_buffered.rs, the loop of for_each.rs and the      *)
(* result buffers of join_all.rs / try_join_all.rs.                        *)
(* Children and the upstream are nondeterministic (answer, self-wake, wake *)
(* of another child's stored - possibly stale - waker inside the poll).    *)
(*                                                                         *)
(* Every action emits the events the Rust harness would record for it;     *)
(* the Abs machine consumes them in the same step (variable m), so TLC     *)
(* checks  Coll || Abs |= no property violation  for all histories, and    *)
(* the emitted event list (variable hist, Gen runs only) is both the       *)
(* scenario and the predicted trace that the real crate is replayed on.    *)
(***************************************************************************)
EXTENDS Abs

CONSTANTS Kind,      \* one of the kinds above
          Cap0,      \* capacity of the (first) group / the limit n of an adapter
          NInit,     \* bounded kinds and joins: children given at construction (from_iter; then the capacity is NInit)
          NC,        \* children 1..NC, pushed / pulled in this order
          Budget,    \* MAX of poll_inner_no_remove (61 in the code)
          NW,        \* task wakers 1..NW
          MaxPolls,  \* polls per child
          MaxItems,  \* items per merged source
          MaxWakes,  \* waker invocations by the environment between polls
          GenMode,   \* TRUE: record emitted events in hist
          CursorFix, \* TRUE: repaired group rotation
          AllowFront,\* ordered kinds: push_front too
          Perpetual, \* TRUE: children may be polled without bound (np saturates at MaxPolls): starvation lassos
          Panics,    \* number of child polls that may panic (the panic unwinds through the collection's poll)
          Mut        \* "none", or the name of a deliberately broken variant (non-vacuity controls, legacy defects)

VARIABLES st, m, hist
vars == <<st, m, hist>>

Grouped  == Kind \in {"fu", "fo", "mu"}
IsOrd    == Kind \in {"fob", "fo", "bo", "tbo"}
IsMrg    == Kind \in {"mb", "mu"}
IsAd     == Kind \in AdapterKinds
IsTry    == Kind \in {"tbu", "tbo", "tja"}
IsJoin   == Kind \in JoinKinds
Children == 1..NC
ErrId(x) == 100000 + x        \* identity of the x-th upstream error item

Key(b, i) == b * 100000 + i
NewGrp(cap) == [cap |-> cap, sl |-> [i \in 0..cap-1 |-> 0], free |-> [j \in 1..cap |-> j - 1],
                q |-> <<>>, fl |-> [i \in 0..cap-1 |-> FALSE], reg |-> 0]
Filled(g) == Cardinality({i \in DOMAIN g.sl : g.sl[i] # 0})
RemoveAt(seq, k) == [j \in 1..Len(seq)-1 |-> IF j < k THEN seq[j] ELSE seq[j+1]]
SetToSeq(S) == CHOOSE f \in [1..Cardinality(S) -> S] : \A a, b \in 1..Cardinality(S) : a < b => f[a] < f[b]

\* ----------------------------------------------------------------- observers, as the code computes them
SumFilled(s) == LET RECURSIVE F(_) F(k) == IF k = 0 THEN 0 ELSE Filled(s.blk[s.groups[k]]) + F(k - 1) IN F(Len(s.groups))
ObsEvs(s) ==
  IF Kind \in {"fe", "ja", "tja"} THEN <<>>
  ELSE
  LET np  == Cardinality(s.parked)
      run == Filled(s.blk[1])
      len == CASE Kind = "fub" -> run
               [] Kind = "fu"  -> s.rem
               [] Kind = "fob" -> run + np
               [] Kind = "fo"  -> s.rem + np
               [] Kind = "mu"  -> SumFilled(s)
               [] OTHER -> -1
      coll == Kind \in CollKinds
      \* adapters: upstream gives the exact hint (r, Some(r)); queue_len = len() of the inner collection
      r   == s.upt - s.upn
      ql  == IF Kind \in {"bo", "tbo"} THEN run + np ELSE run
      legacy == Mut = "legacy_tryhint" /\ Kind \in {"tbu", "tbo"} /\ s.up = "done"
      alo == IF s.up = "done" THEN (IF legacy THEN 0 ELSE ql) ELSE r + ql
  IN <<[e |-> "obs", len |-> IF IsAd THEN -1 ELSE len, empty |-> IF Kind = "mb" \/ IsAd THEN FALSE ELSE len = 0,
        term |-> IF coll THEN len = 0 ELSE FALSE,
        cap |-> IF Kind = "fub" THEN s.blk[1].cap ELSE -1,
        lo |-> IF coll THEN len ELSE IF IsAd THEN alo ELSE 0,
        hi |-> IF coll THEN len ELSE IF IsAd THEN alo ELSE -1,
        rem |-> IF coll THEN len ELSE IF IsAd THEN r + run + np ELSE 0]>>

InitGrp == IF NInit = 0 THEN NewGrp(Cap0)
           ELSE [cap |-> NInit, sl |-> [i \in 0..NInit-1 |-> i + 1], free |-> <<>>,
                 q |-> [j \in 1..NInit |-> j - 1], fl |-> [i \in 0..NInit-1 |-> TRUE], reg |-> 0]
\* upt = number of items the upstream of an adapter will produce in total (chosen initially)
Init0(upt) ==
         [ groups |-> <<1>>, blk |-> <<InitGrp>>, cursor |-> 0, rem |-> 0,
           cs |-> [c \in Children |-> IF c <= NInit THEN "held" ELSE "unborn"],
           loc |-> [c \in Children |-> IF c <= NInit THEN <<1, c - 1>> ELSE <<0, 0>>],
           np |-> [c \in Children |-> 0], ni |-> [c \in Children |-> 0], nextc |-> NInit + 1,
           pc |-> "idle", pw |-> 0, cnt |-> 0, iter |-> 0, cb |-> 1, ci |-> 0, cc |-> 0, rk |-> 0,
           parked |-> {}, idx |-> [c \in Children |-> IF c <= NInit THEN c - 1 ELSE 0], inc |-> NInit, outc |-> 0,
           out |-> {}, nw |-> 0,
           up |-> "open", upt |-> upt, upn |-> 0, upp |-> 0, upe |-> 0, should |-> FALSE,
           res |-> {}, failed |-> {}, taken |-> FALSE, resp |-> "P", npanic |-> 0 ]

InitEvs(s0) == <<[e |-> "reset", kind |-> Kind, cap |-> IF NInit = 0 THEN Cap0 ELSE NInit, run |-> 1, uptotal |-> s0.upt]>>
           \o [c \in 1..NInit |-> [e |-> "push_b", c |-> c]]
           \o <<[e |-> "new", res |-> "ok", al |-> 0]>>
           \o [c \in 1..NInit |-> [e |-> "push", c |-> c, how |-> "init", res |-> "ok", same |-> TRUE, al |-> 0]]
           \o ObsEvs(s0)

Init == /\ st \in (IF IsAd THEN {Init0(n) : n \in 0..NC} ELSE {Init0(0)})
        /\ m = Run(Fresh, InitEvs(st))
        /\ hist = IF GenMode THEN InitEvs(st) ELSE <<>>

Emit(evs) == /\ m' = Run(m, evs)
             /\ hist' = IF GenMode THEN hist \o evs ELSE hist

\* ----------------------------------------------------------------- child wakers
\* invocation of the waker of slot (b, i): flag swap, enqueue, notify
WakeEff(s, b, i) ==
  LET g == s.blk[b] IN
  IF g.fl[i] THEN <<s, <<>>>>
  ELSE LET s1 == [s EXCEPT !.blk[b].fl[i] = TRUE, !.blk[b].q = Append(@, i)] IN
       IF g.reg # 0 /\ Mut # "no_notify" THEN <<[s1 EXCEPT !.blk[b].reg = 0], <<[e |-> "tw", w |-> g.reg]>>>>
       ELSE <<s1, <<>>>>
WakeCall(s, c) ==
  LET b == s.loc[c][1] i == s.loc[c][2] r == WakeEff(s, b, i) IN
  <<r[1], <<[e |-> "wake_b", c |-> c, key |-> Key(b, i)]>> \o r[2] \o <<[e |-> "wake_e"]>>>>
\* WakerList::push(i): flag swap and enqueue, no notify
Arm(s, b, i) == IF s.blk[b].fl[i] THEN s ELSE [s EXCEPT !.blk[b].fl[i] = TRUE, !.blk[b].q = Append(@, i)]

\* insert child c into group b (which has room)
Insert(s, b, c) ==
  LET g == s.blk[b] i == Head(g.free) IN
  Arm([s EXCEPT !.blk[b].sl[i] = c, !.blk[b].free = Tail(@), !.cs[c] = "held", !.loc[c] = <<b, i>>,
                !.nextc = @ + 1], b, i)

\* ----------------------------------------------------------------- the poll, up to the next nondeterministic point
RetEv(res, c, k) == [e |-> "ret", res |-> res, c |-> c, k |-> k, al |-> 0]
Finish(s, evs, res, c, k) ==
  LET s1 == [s EXCEPT !.pc = "idle", !.out = IF res = "item" THEN @ \cup {<<c, k>>} ELSE @]
  IN <<s1, evs \o <<RetEv(res, c, k)>> \o ObsEvs(s1)>>
\* join_all / try_join_all: the whole buffer is handed out (slot order = input order); -1 = never written
VecOf(s) == IF s.taken THEN <<>>
            ELSE [j \in 1..NInit |-> IF j \in s.res THEN j ELSE -1]
FinishVec(s, evs) ==
  LET v == VecOf(s)
      s1 == [s EXCEPT !.pc = "idle", !.taken = TRUE, !.res = {},
                      !.out = @ \cup {<<v[j], 0>> : j \in {x \in 1..Len(v) : v[x] # -1}}]
  IN <<s1, Append(evs, [e |-> "vec", v |-> v, al |-> 0])>>
\* try_join_all: an input failed.  Repaired code: release what was written, cancel the rest.
FinishErr(s, evs, c) ==
  LET legacy == Mut = "legacy_tryjoin"
      kids == {x \in Children : s.cs[x] = "held"}
      ks   == SetToSeq({s.loc[x][2] : x \in kids})
      cds  == [j \in 1..Len(ks) |-> [e |-> "cdrop", c |-> s.blk[1].sl[ks[j]], addr |-> Key(1, ks[j])]]
      rs   == SetToSeq(s.res)
      ods  == [j \in 1..Len(rs) |-> [e |-> "odrop", c |-> rs[j], k |-> 0]]
      s1 == IF legacy THEN [s EXCEPT !.pc = "idle", !.out = @ \cup {<<c, 0>>}]
            ELSE [s EXCEPT !.pc = "idle", !.out = @ \cup {<<c, 0>>}, !.res = {}, !.taken = TRUE,
                           !.cs = [x \in Children |-> IF x \in kids THEN "done" ELSE @[x]],
                           !.blk[1].sl = [i \in DOMAIN @ |-> 0], !.blk[1].free = SetToSeq(DOMAIN s.blk[1].sl)]
  IN <<s1, evs \o (IF legacy THEN <<>> ELSE ods \o cds) \o <<[e |-> "err", c |-> c, al |-> 0]>>>>

RECURSIVE Go(_, _, _)
Go(s, evs, k) ==
  CASE k = "fill" ->       \* adapters: the fill loop in front of the inner poll
         LET g == s.blk[1]
             held == Filled(g) + (IF Kind \in {"bo", "tbo"} /\ Mut # "legacy_ordfill" THEN Cardinality(s.parked) ELSE 0)
         IN IF held < g.cap /\ s.up = "open" THEN <<[s EXCEPT !.pc = "up"], evs>>
            ELSE Go(s, evs, "ord_top")
    [] k = "ord_top" ->    \* futures_ordered*.rs: an output that is next in line is handed out before polling anything
         LET hd == {c \in s.parked : s.idx[c] = s.outc} IN
         IF IsOrd /\ hd # {}
         THEN LET c == CHOOSE x \in hd : TRUE IN
              Finish([s EXCEPT !.parked = @ \ {c}, !.outc = @ + 1], evs, "item", c, 0)
         ELSE Go(s, evs, "inner")
    [] k = "inner" ->
         IF Grouped
         THEN IF s.groups = <<>> THEN Go(s, evs, "in_none")
              ELSE Go([s EXCEPT !.iter = Len(s.groups)], evs, "loop")
         ELSE Go([s EXCEPT !.cb = s.groups[1]], evs, "enter")
    [] k = "loop" ->
         IF s.iter = 0 THEN Go(s, evs, "in_pending")
         ELSE LET cur == IF s.cursor >= Len(s.groups) THEN 0 ELSE s.cursor IN
              Go([s EXCEPT !.cursor = cur, !.iter = @ - 1, !.cb = s.groups[cur + 1]], evs, "enter")
    [] k = "enter" ->      \* poll_inner_no_remove: is_empty test, register, fresh budget
         IF Filled(s.blk[s.cb]) = 0 THEN Go(s, evs, "g_none")
         ELSE Go([s EXCEPT !.blk[s.cb].reg = IF Mut = "register_once" /\ @ # 0 THEN @ ELSE s.pw, !.cnt = 0], evs, "grp")
    [] k = "grp" ->
         LET g == s.blk[s.cb] IN
         IF s.cnt + 1 > Budget
         THEN Go([s EXCEPT !.cnt = @ + 1],
                 IF Mut = "no_budget_wake" THEN evs ELSE Append(evs, [e |-> "tw", w |-> s.pw]), "g_pending")
         ELSE IF g.q = <<>> THEN Go([s EXCEPT !.cnt = @ + 1], evs, "g_pending")
         ELSE LET lifo == Mut = "lifo"
                  i == IF lifo THEN g.q[Len(g.q)] ELSE Head(g.q)
                  c == g.sl[i]
                  s1 == [s EXCEPT !.cnt = @ + 1, !.blk[s.cb].q = IF lifo THEN SubSeq(@, 1, Len(@) - 1) ELSE Tail(@),
                                  !.blk[s.cb].fl[i] = Mut = "no_flag_clear"] IN
              IF c = 0 THEN Go(s1, evs, "grp")
              ELSE <<[s1 EXCEPT !.pc = "child", !.ci = i, !.cc = c],
                     Append(evs, [e |-> "cin", c |-> c, key |-> Key(s.cb, i), addr |-> Key(s.cb, i)])>>
    [] k = "g_none" ->
         IF ~Grouped THEN Go(s, evs, "in_none")
         ELSE LET b  == s.cb
                  gs == RemoveAt(s.groups, s.cursor + 1) IN
              IF gs = <<>> THEN Go([s EXCEPT !.groups = <<b>>], evs, "in_none")
              ELSE IF s.cursor = Len(gs)
                   THEN Go([s EXCEPT !.groups = Append(gs, b), !.cursor = 0], evs, "loop")
                   ELSE Go([s EXCEPT !.groups = gs, !.iter = IF CursorFix THEN @ + 1 ELSE @], evs, "loop")
    [] k = "g_pending" ->
         IF ~Grouped THEN Go(s, evs, "in_pending")
         ELSE Go([s EXCEPT !.cursor = @ + 1], evs, "loop")
    [] k = "g_ready" ->
         IF ~Grouped THEN Go(s, evs, "in_ready")
         ELSE Go([s EXCEPT !.rem = IF Kind = "mu" THEN @ ELSE @ - 1,
                           !.cursor = IF CursorFix THEN @ + 1 ELSE @], evs, "in_ready")
    \* ---- what the layer around the inner unordered poll does with its answer
    [] k = "in_none" ->
         CASE IsAd /\ Kind # "fe" -> IF s.up = "done" THEN Finish(s, evs, "none", 0, 0) ELSE Finish(s, evs, "pending", 0, 0)
           [] Kind = "fe" -> IF s.up = "done" THEN Finish(s, evs, "done", 0, 0)
                             ELSE IF s.should THEN Go([s EXCEPT !.should = FALSE], evs, "fill")
                             ELSE Finish(s, evs, "pending", 0, 0)
           [] IsJoin -> FinishVec(s, evs)
           [] OTHER -> Finish(s, evs, "none", 0, 0)
    [] k = "in_pending" ->
         IF Kind = "fe" /\ s.should THEN Go([s EXCEPT !.should = FALSE], evs, "fill")
         ELSE Finish(s, evs, "pending", 0, 0)
    [] k = "in_ready" ->
         CASE Kind = "fe" -> Go([s EXCEPT !.should = FALSE], evs, "fill")
           [] IsJoin -> IF Kind = "tja" /\ s.resp = "X" THEN FinishErr([s EXCEPT !.failed = @ \cup {s.cc}], evs, s.cc)
                        ELSE Go([s EXCEPT !.res = @ \cup {s.cc}], evs, "inner")
           [] IsOrd -> IF s.idx[s.cc] = s.outc THEN Finish([s EXCEPT !.outc = @ + 1], evs, "item", s.cc, 0)
                       ELSE Go([s EXCEPT !.parked = @ \cup {s.cc}], evs, "inner")
           [] OTHER -> Finish(s, evs, "item", s.cc, s.rk)

\* ----------------------------------------------------------------- environment actions
PushEvs(c, how, res) == <<[e |-> "push_b", c |-> c],
                          [e |-> "push", c |-> c, how |-> how, res |-> res, same |-> TRUE, al |-> 0]>>

Push(how) ==
  /\ st.pc = "idle" /\ st.nextc <= NC /\ ~IsAd /\ ~IsJoin
  /\ how = "front" => (IsOrd /\ AllowFront)
  /\ LET c    == st.nextc
         last == st.groups[Len(st.groups)]
         full == st.blk[last].free = <<>>
         \* the ordering layer assigns the position before the inner push
         s0   == IF ~IsOrd THEN st
                 ELSE IF how = "front" THEN [st EXCEPT !.outc = @ - 1, !.idx[c] = st.outc - 1]
                 ELSE [st EXCEPT !.inc = @ + 1, !.idx[c] = st.inc]
     IN IF ~full
        THEN LET s1 == Insert([s0 EXCEPT !.rem = IF Kind \in {"fu", "fo"} THEN @ + 1 ELSE @], last, c) IN
             /\ st' = s1 /\ Emit(PushEvs(c, how, "ok") \o ObsEvs(s1))
        ELSE IF Grouped
        THEN LET nb == Len(st.blk) + 1
                 s1 == [s0 EXCEPT !.blk = Append(@, NewGrp(2 * st.blk[last].cap)), !.groups = Append(@, nb),
                                  !.rem = IF Kind \in {"fu", "fo"} THEN @ + 1 ELSE @]
                 s2 == Insert(s1, nb, c) IN
             /\ st' = s2
             /\ Emit(<<[e |-> "push_b", c |-> c],
                       [e |-> "push", c |-> c, how |-> how, res |-> "ok", same |-> TRUE, al |-> 2]>> \o ObsEvs(s2))
        ELSE \* bounded and full: try_push hands the future back, nothing changes
             /\ st' = [st EXCEPT !.cs[c] = "refused", !.nextc = @ + 1]
             /\ Emit(PushEvs(c, how, "full") \o ObsEvs(st))

PollBegin(w) ==
  /\ st.pc = "idle"
  /\ LET s0 == [st EXCEPT !.pw = w, !.should = FALSE]
         pe == <<[e |-> "poll", w |-> w]>>
         r  == IF IsAd THEN Go(s0, pe, "fill") ELSE Go(s0, pe, "ord_top")
     IN st' = r[1] /\ Emit(r[2])

\* the upstream of an adapter answers
UpStep ==
  /\ st.pc = "up"
  /\ \E resp \in {"I", "P", "E", "X"} :
       /\ resp = "I" => (st.upn < st.upt /\ st.nextc <= NC)
       /\ resp = "X" => (IsTry /\ st.upn < st.upt /\ st.upe < 1)
       /\ resp = "P" => st.upp < 2
       /\ resp = "E" => st.upn = st.upt
       /\ LET s0 == [st EXCEPT !.pc = "idle"] IN
          CASE resp = "I" ->
                 LET c  == st.nextc
                     s1 == IF IsOrd THEN [s0 EXCEPT !.inc = @ + 1, !.idx[c] = st.inc] ELSE s0
                     s2 == Insert([s1 EXCEPT !.upn = @ + 1, !.should = TRUE], 1, c)
                     ue == <<[e |-> "up", resp |-> "I", c |-> c]>>
                     r  == IF Kind = "fe" THEN Go(s2, ue, "inner") ELSE Go(s2, ue, "fill")
                 IN st' = r[1] /\ Emit(r[2])
            [] resp = "P" ->
                 LET r == Go([s0 EXCEPT !.upp = @ + 1], <<[e |-> "up", resp |-> "P", c |-> 0]>>, "ord_top")
                 IN st' = r[1] /\ Emit(r[2])
            [] resp = "E" ->
                 LET r == Go([s0 EXCEPT !.up = "done"], <<[e |-> "up", resp |-> "E", c |-> 0]>>, "ord_top")
                 IN st' = r[1] /\ Emit(r[2])
            [] resp = "X" ->     \* `s.poll_next(cx)?` : the error is forwarded at once
                 LET x == ErrId(st.upn + 1)
                     r == Finish([s0 EXCEPT !.upn = @ + 1, !.upe = @ + 1], <<[e |-> "up", resp |-> "X", c |-> x]>>, "item", x, -1)
                 IN st' = r[1] /\ Emit(r[2])

\* the child being polled answers; it may first invoke its own waker or the stored waker of another child
Stash(s) == {c \in Children : s.np[c] > 0}
ChildStep ==
  /\ st.pc = "child"
  /\ LET c == st.cc b == st.cb i == st.ci IN
     /\ Perpetual \/ st.np[c] < MaxPolls
     /\ \E act \in {0} \cup Stash(st) \cup {c} :
        \E resp \in (IF IsMrg THEN {"P", "I", "E"} ELSE IF IsTry THEN {"P", "R", "X"} ELSE {"P", "R"}) \cup {"!"} :
          /\ resp = "I" => (Perpetual \/ st.ni[c] < MaxItems)
          /\ resp = "!" => st.npanic < Panics
          /\ resp = "X" => Cardinality(st.failed) < 2
          /\ LET s0 == [st EXCEPT !.np[c] = IF @ < MaxPolls THEN @ + 1 ELSE @, !.resp = resp]
                 wk == IF act = 0 THEN <<s0, <<>>>> ELSE WakeCall(s0, act)
                 s1 == wk[1]
                 k  == IF resp = "I" THEN (IF s1.ni[c] < MaxItems THEN s1.ni[c] + 1 ELSE MaxItems) ELSE 0
                 \* a unit future (for_each) completes without an output value: logged as "E"
                 co == <<[e |-> "cout", c |-> c, resp |-> IF Kind = "fe" /\ resp = "R" THEN "E" ELSE resp, k |-> k]>>
                 cd == <<[e |-> "cdrop", c |-> c, addr |-> Key(b, i)]>>
                 vac == [s1 EXCEPT !.blk[b].sl[i] = 0, !.blk[b].free = <<i>> \o @, !.cs[c] = "done"]
                 r  == CASE resp = "P" -> Go([s1 EXCEPT !.pc = "idle"], wk[2] \o co, "grp")
                         [] resp \in {"R", "X"} ->
                              IF Mut = "no_vacate" THEN Go([s1 EXCEPT !.pc = "idle", !.rk = 0], wk[2] \o co, "g_ready")
                              ELSE Go([vac EXCEPT !.pc = "idle", !.rk = 0], wk[2] \o co \o cd, "g_ready")
                         [] resp = "I" -> Go((IF Mut = "no_rearm" THEN [s1 EXCEPT !.pc = "idle", !.ni[c] = k, !.rk = k]
                                              ELSE Arm([s1 EXCEPT !.pc = "idle", !.ni[c] = k, !.rk = k], b, i)),
                                             wk[2] \o co, "g_ready")
                         [] resp = "E" -> Go([vac EXCEPT !.pc = "idle"], wk[2] \o co \o cd, "enter")
                         \* the child's poll panics: the unwinding leaves every loop at once.  The child stays where it is,
                         \* its queued flag was cleared when it was dequeued, nothing else has been touched
                         \* (no guard object re-queues it, the cursor and `rem` are as they were).
                         [] resp = "!" -> LET s3 == [s1 EXCEPT !.pc = "idle", !.npanic = @ + 1]
                                              s2 == IF Mut = "panic_requeue" THEN Arm(s3, b, i) ELSE s3 IN
                                          <<s2, wk[2] \o <<[e |-> "cpanic", c |-> c], RetEv("panic", 0, 0)>> \o ObsEvs(s2)>>
             IN st' = r[1] /\ Emit(r[2])

Wake(c) ==
  /\ st.pc \in {"idle", "dead"} /\ st.np[c] > 0 /\ st.nw < MaxWakes
  /\ LET r == WakeCall([st EXCEPT !.nw = @ + 1], c) IN st' = r[1] /\ Emit(r[2])

\* drop the collection: children in group order, slot order; then the parked / buffered outputs
DropColl ==
  /\ st.pc = "idle"
  /\ LET kids == {c \in Children : st.cs[c] = "held"}
         ks   == SetToSeq({Key(st.loc[c][1], st.loc[c][2]) : c \in kids})
         byKey(k) == CHOOSE c \in kids : Key(st.loc[c][1], st.loc[c][2]) = k
         cds  == [j \in 1..Len(ks) |-> [e |-> "cdrop", c |-> byKey(ks[j]), addr |-> ks[j]]]
         owned == st.parked \cup (IF Mut = "legacy_joinleak" THEN {} ELSE st.res)
         ps   == SetToSeq(owned)
         ods  == [j \in 1..Len(ps) |-> [e |-> "odrop", c |-> ps[j], k |-> 0]]
     IN /\ st' = [st EXCEPT !.pc = "dead", !.cs = [c \in Children |-> IF c \in kids THEN "done" ELSE @[c]],
                            !.parked = {}, !.res = {}]
        /\ Emit(<<[e |-> "dropc_b"]>> \o cds \o ods \o <<[e |-> "dropc_e"]>>)

\* the caller drops what it received; end of the run
End ==
  /\ st.pc = "dead"
  /\ LET os  == SetToSeq({t[1] * 10 + (t[2] + 1) : t \in st.out})
         ods == [j \in 1..Len(os) |-> [e |-> "odrop", c |-> os[j] \div 10, k |-> (os[j] % 10) - 1]]
     IN /\ st' = [st EXCEPT !.pc = "end", !.out = {}]
        /\ Emit(ods \o <<[e |-> "end"]>>)

Next == \/ \E how \in {"back", "front"} : Push(how)
        \/ \E w \in 1..NW : PollBegin(w)
        \/ ChildStep
        \/ UpStep
        \/ \E c \in Children : Wake(c)
        \/ DropColl
        \/ End

Spec == Init /\ [][Next]_vars

\* ----------------------------------------------------------------- what TLC checks
NoViolation == m.viol = {}
\* structural invariants of the implementation-shaped state
QueueMatchesFlags == \A b \in DOMAIN st.blk : LET g == st.blk[b] IN
                       /\ \A i \in DOMAIN g.fl : g.fl[i] <=> \E j \in 1..Len(g.q) : g.q[j] = i
                       /\ \A a, d \in 1..Len(g.q) : g.q[a] = g.q[d] => a = d
FreeListSound == \A b \in DOMAIN st.blk : LET g == st.blk[b] IN
                   /\ \A j \in 1..Len(g.free) : g.sl[g.free[j]] = 0
                   /\ Len(g.free) + Filled(g) = g.cap
RemIsHeld == (Kind \in {"fu", "fo"} /\ st.pc \notin {"dead", "end"}) => st.rem = Cardinality({c \in Children : st.cs[c] = "held"})
LocSound == \A c \in Children : st.cs[c] = "held" => st.blk[st.loc[c][1]].sl[st.loc[c][2]] = c
\* a held child that is owed a poll is queued (or is the one being polled)
ObligQueued == \A c \in Children :
                 (st.cs[c] = "held" /\ c \in DOMAIN m.ch /\ m.ch[c].nt /\ ~(st.pc = "child" /\ st.cc = c))
                 => st.blk[st.loc[c][1]].fl[st.loc[c][2]]
GroupsSound == /\ Len(st.groups) >= 1
               /\ \A a, d \in 1..Len(st.groups) : st.groups[a] = st.groups[d] => a = d
\* the ordering layer: positions of running and parked futures form the window outc .. inc-1
WindowSound == IsOrd => LET live == {c \in Children : st.cs[c] = "held"} \cup st.parked IN
                          /\ \A c \in live : st.outc <= st.idx[c] /\ st.idx[c] < st.inc
                          /\ \A c, d \in live : c # d => st.idx[c] # st.idx[d]

View == <<st, m>>
=============================================================================
