SPECIFICATION Spec
CONSTANTS K = 4
 MaxPush = 5
 MaxWin = 3
 Mut = "none"
 GenMode = TRUE
INVARIANT EmitIdle
VIEW View
CHECK_DEADLOCK FALSE
