------------------------------ MODULE MCColl ------------------------------
EXTENDS Coll, Json
\* Gen runs: one line per finished run - the predicted event trace, which is also the scenario
EmitRun == (st.pc = "end") => PrintT(<<"SCN", ToJson(hist)>>)
\* Gen, state cover: one line per distinct poll-boundary state (the BFS path that reached it first)
EmitIdle == (st.pc = "idle" /\ Len(hist) > 0) => PrintT(<<"SCN", ToJson(hist)>>)
\* bound the length of Gen runs
Short == Len(hist) <= 60
=============================================================================
