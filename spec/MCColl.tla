------------------------------ MODULE MCColl ------------------------------
EXTENDS Coll, Json
\* Gen runs: one line per finished run - the predicted event trace, which is also the scenario
EmitRun == (st.pc = "end") => PrintT(<<"SCN", ToJson(hist)>>)
\* Gen, state cover: one line per distinct poll-boundary state (the BFS path that reached it first)
EmitIdle == (st.pc = "idle" /\ Len(hist) > 0) => PrintT(<<"SCN", ToJson(hist)>>)
\* bound the length of Gen runs
Short == Len(hist) <= 60
\* ---- liveness: under a fair owner that keeps polling, a child that is owed a poll gets it (C01 / C13 as progress)
Owner == (\E w \in 1..NW : PollBegin(w)) \/ ChildStep \/ UpStep
FairSpec == Spec /\ WF_vars(Owner)
Owed(c) == c \in DOMAIN m.ch /\ m.ch[c].st = "held" /\ m.ch[c].ob
Progress == \A c \in Children : Owed(c) ~> ~Owed(c)
=============================================================================
