------------------------------ MODULE MCColl ------------------------------
EXTENDS Coll, Json
\* Gen runs: one line per finished run - the predicted event trace, which is also the scenario
EmitRun == (st.pc = "end") => PrintT(<<"SCN", ToJson(hist)>>)
\* bound the length of Gen runs
Short == Len(hist) <= 60
=============================================================================
