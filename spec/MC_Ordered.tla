---------------------------- MODULE MC_Ordered ----------------------------
EXTENDS Ordered, Json
\* scenario export: one line per distinct poll-boundary state
EmitIdle == (pc = "idle" /\ lastRes \in {"Yield", "Pending", "None"}) => PrintT(<<"SCN", ToJson(hist)>>)
ASSUME HomOK(K + 3)
=============================================================================
