SPECIFICATION Spec
CONSTANTS K = 4
 MaxPush = 5
 MaxWin = 3
 Mut = "none"
 GenMode = FALSE
INVARIANTS OrderOK NoneOnlyEmpty PendingSound WindowOK
CHECK_DEADLOCK FALSE
