SPECIFICATION Spec
CONSTANTS K = 5
 MaxPush = 6
 MaxWin = 4
 Mut = "none"
 GenMode = FALSE
INVARIANTS OrderOK NoneOnlyEmpty PendingSound WindowOK
CHECK_DEADLOCK FALSE
