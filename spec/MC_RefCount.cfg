SPECIFICATION Spec
CONSTANTS Procs = {o, a, b}
 Owner = o
 IncOrd = "Relaxed"
 DecOrd = "Release"
 FenceOrd = "Acquire"
 MaxAcc = 2
 MaxClones = 3
INVARIANTS StrongIsOwners NoRacyFree FreeOnlyAtZero FreeOnce NoLeak
CHECK_DEADLOCK FALSE
