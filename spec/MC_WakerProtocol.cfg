SPECIFICATION Spec
CONSTANTS NSlots = 2
 Producers = {p1, p2}
 Budget = 2
 MaxWakes = 1
 MaxPolls = 2
 MaxPush = 2
 NWakers = 2
 Mut = "none"
INVARIANTS NoLostWakeup ListSound DwValid NoLockLeak
CHECK_DEADLOCK FALSE
