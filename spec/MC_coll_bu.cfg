SPECIFICATION Spec
CONSTANTS
 Kind = "bu"
 Cap0 = 2
 NInit = 0
 NC = 3
 Budget = 2
 NW = 2
 MaxPolls = 2
 MaxItems = 1
 MaxWakes = 1
 GenMode = FALSE
 CursorFix = TRUE
 AllowFront = FALSE
 Mut = "none"
 Perpetual = FALSE
 WaitMul = 1
 WaitAdd = 2
 Panics = 0
 StaleCap = 0
INVARIANTS NoViolation QueueMatchesFlags FreeListSound RemIsHeld LocSound ObligQueued GroupsSound
CHECK_DEADLOCK FALSE
