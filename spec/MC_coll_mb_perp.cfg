SPECIFICATION Spec
CONSTANTS
 Kind = "mb"
 Cap0 = 2
 NInit = 2
 NC = 2
 Budget = 2
 NW = 2
 MaxPolls = 2
 MaxItems = 2
 MaxWakes = 1
 GenMode = FALSE
 CursorFix = TRUE
 AllowFront = FALSE
 Mut = "none"
 Perpetual = TRUE
 WaitMul = 1
 WaitAdd = 2
 Panics = 0
 StaleCap = 0
INVARIANTS NoViolation QueueMatchesFlags FreeListSound RemIsHeld LocSound ObligQueued GroupsSound
CHECK_DEADLOCK FALSE
