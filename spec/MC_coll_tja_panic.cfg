SPECIFICATION Spec
CONSTANTS
 Kind = "tja"
 Cap0 = 3
 NInit = 3
 NC = 3
 Budget = 2
 NW = 2
 MaxPolls = 2
 MaxItems = 1
 MaxWakes = 1
 GenMode = FALSE
 CursorFix = TRUE
 AllowFront = FALSE
 Mut = "none"
 Perpetual = FALSE
 WaitMul = 1
 WaitAdd = 2
 Panics = 1
 StaleCap = 0
INVARIANTS NoViolation QueueMatchesFlags FreeListSound RemIsHeld LocSound ObligQueued GroupsSound
CHECK_DEADLOCK FALSE
