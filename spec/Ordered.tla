------------------------------ MODULE Ordered ------------------------------
(***************************************************************************)
(* The ordering layer of FuturesOrdered / FuturesOrderedBounded with       *)
(* K-bit wrapping position counters (the code uses Wrapping<usize>).       *)
(* Exactly the code's arithmetic is used: +1, -1 (mod W), XOR MSB,         *)
(* & MSB == MSB, ==, and the *linear* < of the BinaryHeap.                 *)
(* Init lets the counters start at ANY of the W values, so one exhaustive  *)
(* run covers every start value: adjacent to 0, to the sign bit, to MAX.   *)
(* `expect` is the reference deque (history variable).                     *)
(* The step from K bits to the real 64 is the homomorphism HomOK below.    *)
(***************************************************************************)
EXTENDS Naturals, Integers, Sequences, FiniteSets, TLC
CONSTANTS K,        \* counter width in bits
          MaxPush,  \* futures pushed per behaviour
          MaxWin,   \* futures held at once (running + parked)
          Mut,      \* "none" or a deliberately broken variant
          GenMode   \* TRUE: record the environment's choices in hist (scenario export)

W == 2^K
MSB == 2^(K-1)
Inc(x) == (x + 1) % W
Dec(x) == (x + W - 1) % W
FlipMSB(x) == IF x >= MSB THEN x - MSB ELSE x + MSB     \* x ^ MSB
VARIABLES out, inc, running, done, parked, expect, pc, nid, ok, lastRes, hist
\* running, parked: sets of records [id, idx]
vars == <<out, inc, running, done, parked, expect, pc, nid, ok, lastRes, hist>>
View == <<out, inc, running, done, parked, expect, pc, nid, ok, lastRes>>
Rec(r) == hist' = IF GenMode THEN Append(hist, r) ELSE hist
Init == /\ out \in 0..(W-1) /\ inc = out /\ running = {} /\ done = {} /\ parked = {} /\ expect = <<>>
        /\ pc = "idle" /\ nid = 1 /\ ok = TRUE /\ lastRes = "init"
        /\ hist = IF GenMode THEN <<[op |-> "start", v |-> out, k |-> K]>> ELSE <<>>
Size == Cardinality(running) + Cardinality(parked)
PushBack == /\ pc = "idle" /\ nid <= MaxPush /\ Size < MaxWin
            /\ running' = running \cup {[id |-> nid, idx |-> inc]} /\ inc' = Inc(inc)
            /\ expect' = Append(expect, nid) /\ nid' = nid + 1 /\ lastRes' = "na"
            /\ UNCHANGED <<out, done, parked, pc, ok>> /\ Rec([op |-> "pb", c |-> nid])
PushFront == /\ pc = "idle" /\ nid <= MaxPush /\ Size < MaxWin
             /\ out' = Dec(out)
             /\ running' = running \cup {[id |-> nid, idx |-> IF Mut = "front_postdec" THEN out ELSE Dec(out)]}
             /\ expect' = <<nid>> \o expect /\ nid' = nid + 1 /\ lastRes' = "na"
             /\ UNCHANGED <<inc, done, parked, pc, ok>> /\ Rec([op |-> "pf", c |-> nid])
Complete == /\ pc = "idle"
            /\ \E r \in running : r.id \notin done /\ done' = done \cup {r.id} /\ Rec([op |-> "complete", c |-> r.id])
            /\ lastRes' = "na" /\ UNCHANGED <<out, inc, running, parked, expect, pc, nid, ok>>
Yield(id) == /\ ok' = (ok /\ expect # <<>> /\ Head(expect) = id)
             /\ expect' = IF expect # <<>> THEN Tail(expect) ELSE expect
             /\ out' = Inc(out) /\ pc' = "idle" /\ lastRes' = "Yield"
\* the head of the BinaryHeap: linear order on the stored index (max-heap on the reversed comparison)
MinParked == IF Mut = "heap_max" THEN CHOOSE p \in parked : \A q \in parked : p.idx >= q.idx
             ELSE CHOOSE p \in parked : \A q \in parked : p.idx <= q.idx
Rebase == IF Mut = "rebase_on_inc" THEN inc >= MSB ELSE out >= MSB
PollBegin == /\ pc = "idle"
             /\ IF Rebase
                THEN /\ out' = FlipMSB(out)
                     /\ inc' = IF Mut = "no_rebase_inc" THEN inc ELSE FlipMSB(inc)
                     /\ running' = IF Mut = "no_rebase_running" THEN running
                                   ELSE {[id |-> r.id, idx |-> FlipMSB(r.idx)] : r \in running}
                     /\ parked' = IF Mut = "no_rebase_parked" THEN parked
                                  ELSE {[id |-> r.id, idx |-> FlipMSB(r.idx)] : r \in parked}
                ELSE UNCHANGED <<out, inc, running, parked>>
             /\ pc' = "peek" /\ lastRes' = "inpoll" /\ UNCHANGED <<done, expect, nid, ok>> /\ Rec([op |-> "poll"])
Peek == /\ pc = "peek"
        /\ UNCHANGED hist
        /\ IF parked # {} /\ (Mut = "release_no_compare" \/ MinParked.idx = out)
           THEN /\ parked' = parked \ {MinParked} /\ Yield(MinParked.id) /\ UNCHANGED <<inc, running, done, nid>>
           ELSE pc' = "loop" /\ UNCHANGED <<out, inc, running, done, parked, expect, nid, ok, lastRes>>
Loop == /\ pc = "loop" /\ UNCHANGED hist
        /\ IF \E r \in running : r.id \in done
           THEN \E r \in running : r.id \in done /\
                  /\ running' = running \ {r} /\ done' = done \ {r.id}
                  /\ IF r.idx = out THEN Yield(r.id) /\ UNCHANGED <<inc, parked, nid>>
                     ELSE parked' = parked \cup {r} /\ UNCHANGED <<out, inc, expect, pc, nid, ok, lastRes>>
           ELSE /\ pc' = "idle" /\ lastRes' = IF running = {} THEN "None" ELSE "Pending"
                /\ UNCHANGED <<out, inc, running, done, parked, expect, nid, ok>>
Next == PushBack \/ PushFront \/ Complete \/ PollBegin \/ Peek \/ Loop
Spec == Init /\ [][Next]_vars

\* C04: every yield is the head of the reference deque
OrderOK == ok
\* C02 for the ordering layer: None only when nothing is held; Pending only while the head of line is running
NoneOnlyEmpty == lastRes = "None" => (expect = <<>> /\ parked = {})
PendingSound == lastRes = "Pending" => (expect # <<>> /\ \E r \in running : r.id = Head(expect) /\ r.id \notin done)
\* the held positions are the window out .. inc-1 (mod W), pairwise distinct
Dist(a, b) == (b + W - a) % W
WindowOK == pc = "idle" =>
              /\ \A r \in running \cup parked : Dist(out, r.idx) < Dist(out, inc)
              /\ \A r, q \in running \cup parked : r.id # q.id => r.idx # q.idx
              /\ Cardinality(running) + Cardinality(parked) = Dist(out, inc)

(***************************************************************************)
(* From K bits to K2 > K bits (and, by the same argument, to 64): map a    *)
(* wide value r = landmark2 + d (landmark2 in {0, MSB2}, |d| <= D) to      *)
(* h(r) = landmark + d.  While every value of a run stays within           *)
(* D = 2^(K-2) - 1 of a landmark, h commutes with all six operations the   *)
(* code applies to the counters, so the K-bit run and the wide run are the *)
(* same run.  TLC evaluates this for (K, K2) when the module is loaded.    *)
(***************************************************************************)
HomOK(K2) ==
  LET W2 == 2^K2 MSB2 == 2^(K2-1) D == 2^(K-2) - 1
      Wide(L, d) == (L * MSB2 + d + W2) % W2          \* L in {0,1}
      Narrow(L, d) == (L * MSB + d + W) % W
      Inc2(x) == (x + 1) % W2  Dec2(x) == (x + W2 - 1) % W2
      Flip2(x) == IF x >= MSB2 THEN x - MSB2 ELSE x + MSB2
      H(x) == CHOOSE y \in 0..(W-1) : \E L \in {0, 1}, d \in (0-D)..D : Wide(L, d) = x /\ y = Narrow(L, d)
  IN \A L \in {0, 1} : \A d \in (0-D)..D :
       LET x == Wide(L, d) y == Narrow(L, d) IN
       /\ H(x) = y
       /\ (d < D => H(Inc2(x)) = Inc(y))
       /\ (d > 0 - D => H(Dec2(x)) = Dec(y))
       /\ H(Flip2(x)) = FlipMSB(y)
       /\ (x >= MSB2) = (y >= MSB)
       /\ \A d2 \in (0-D)..D : LET x2 == Wide(L, d2) y2 == Narrow(L, d2) IN
            /\ (x = x2) = (y = y2)
            \* the heap compares only positions of one window, which after re-basing lies in [0, MSB + D]
            /\ ((d >= 0 /\ d2 >= 0) \/ (L = 1)) => ((x < x2) = (y < y2))
=============================================================================
