------------------------------- MODULE ProtoSp -------------------------------
(***************************************************************************)
(* The wake-up protocol of the waker blocks at the grain of the hook       *)
(* events ("sync points"), i.e. WakerProtocol.tla with every segment       *)
(* between two hooks fused into one step.  It is the implementation-shaped *)
(* ("Impl") reading of the protocol and is used for TRACE VALIDATION of    *)
(* the probe traces recorded from the real crate (single-threaded runs     *)
(* and gate-scheduled threads, where the log order is the real order):     *)
(*                                                                         *)
(*   balloc b cap                 a block with its slots                   *)
(*   ins b i / vac b i            slot filled by a push / vacated          *)
(*   pswap b i x / penq b i       WakerList::push: flag swap (x = previous *)
(*                                value) under the slot lock / enqueue     *)
(*   wswap b i x t / wenq / wnotified / wdone     wake_by_ref on thread t  *)
(*   regb b t / rega b t          WakerList::register                      *)
(*   pop b i / popclr b i         dequeue / queued flag cleared            *)
(*   tw w t                       task waker w invoked                     *)
(*   poll w / ret                 frame of a collection poll               *)
(*   budget b max                 per-poll budget exhausted                *)
(*                                                                         *)
(* A recorded step that this reading does not allow is recorded in `dev`   *)
(* as <<clause, ...>>.  Deviations are reported as DRIFT, never as a       *)
(* violation: the properties are decided by Abs / AbsRc.  What is checked: *)
(*   Flag      the value a swap returns is the modelled flag               *)
(*   Guard     an enqueue happens iff the swap returned FALSE              *)
(*   Lock      swaps of one slot exclude each other until unlock           *)
(*   Fifo      pop returns the oldest queued slot; never from an empty     *)
(*             queue; a queued slot is queued once                         *)
(*   Clear     the flag is cleared right after its slot was popped         *)
(*   Notify    a notification follows its enqueue and goes to the waker    *)
(*             registered last; registration is consumed by it             *)
(*   Reg       a poll that reaches the queue has registered its waker      *)
(*   Lifo      a push takes the most recently vacated slot                 *)
(*   Budget    at most `max` pops per registration                         *)
(***************************************************************************)
EXTENDS Naturals, Integers, Sequences, FiniteSets, TLC

FreshP == [ run |-> 0, blk |-> <<>>,      \* b -> [cap, fl, q, reg, free, occ, pops]
            lock |-> <<>>,                 \* key -> thread holding the slot lock
            sw |-> <<>>,                   \* thread -> [key, x] of its swap in progress
            enq |-> {},                    \* threads that have enqueued in their current wake
            lastpop |-> <<>>,              \* b -> slot popped and not yet cleared (-1: none)
            pw |-> 0, inpoll |-> FALSE, ext |-> FALSE,    \* ext: the environment is waking the task itself (a pending upstream)
            dev |-> {} ]
D(s, c, e) == [s EXCEPT !.dev = @ \cup {<<c, e.e>>}]
Ck(s, ok, c, e) == IF ok THEN s ELSE D(s, c, e)
K(b, i) == b * 100000 + i
Known(s, b) == b \in DOMAIN s.blk
NewBlk(cap) == [cap |-> cap, fl |-> [i \in 0..cap-1 |-> FALSE], q |-> <<>>, reg |-> 0, preg |-> 0,
                free |-> [j \in 1..cap |-> j - 1], occ |-> {}, pops |-> 0]
Holder(s, k) == IF k \in DOMAIN s.lock THEN s.lock[k] ELSE -1
InQ(q, i) == \E j \in 1..Len(q) : q[j] = i

Unlock(s, t) == [s EXCEPT !.lock = [k \in {x \in DOMAIN @ : @[x] # t} |-> @[k]],
                          !.sw = [x \in DOMAIN @ \ {t} |-> @[x]], !.enq = @ \ {t}]
\* flag swap under the slot lock by thread t (owner push or a waker)
Swap(sx, e, t) ==
  LET s == Unlock(sx, t)       \* a thread holds at most one slot lock: whatever it held before has been released
      b == e.b i == e.i k == K(b, i) g == s.blk[b]
      s1 == Ck(s, Holder(s, k) = -1, "Lock", e)
      s2 == Ck(s1, i < g.cap /\ (e.x = 1) = g.fl[i], "Flag", e)
  IN [s2 EXCEPT !.blk[b].fl = IF i < g.cap THEN [g.fl EXCEPT ![i] = TRUE] ELSE g.fl,
                !.lock = (k :> t) @@ @, !.sw = (t :> [key |-> k, x |-> e.x]) @@ @, !.enq = @ \ {t}]
Enq(s, e, t) ==
  LET b == e.b i == e.i g == s.blk[b]
      mine == t \in DOMAIN s.sw /\ s.sw[t].key = K(b, i)
      s1 == Ck(s, mine /\ s.sw[t].x = 0, "Guard", e)
      s2 == Ck(s1, ~InQ(g.q, i), "Fifo", e)
  IN [s2 EXCEPT !.blk[b].q = Append(@, i), !.enq = @ \cup {t}]
\* the thread has left the locked region of a push (no event marks the unlock of WakerList::push)
Leave(s, e) == IF "t" \in DOMAIN e /\ e.e \notin {"pswap", "penq", "wswap", "wenq", "wnotified", "tw", "twc", "twd", "vt", "strong"}
                  /\ e.t \in DOMAIN s.sw /\ e.e # "wdone"
               THEN Unlock(s, e.t) ELSE s

StepP(s0, e) ==
  LET s == Leave(s0, e) IN
  CASE e.e = "reset" -> [FreshP EXCEPT !.run = e.run]
    [] e.e = "balloc" -> [s EXCEPT !.blk = (e.b :> NewBlk(e.cap)) @@ @, !.lastpop = (e.b :> -1) @@ @]
    [] e.e \in {"pswap", "wswap", "penq", "wenq", "pop", "popclr", "ins", "vac", "regb", "rega", "budget", "wnotified", "wdone"} /\ ~Known(s, e.b) -> s
    \* WakerList::push has no hook at its unlock: the lock is gone after the enqueue, or at once when nothing is enqueued.
    \* A slot that is swapped without a preceding `ins` was filled at construction (from_iter).
    [] e.e = "pswap" ->
         LET g  == s.blk[e.b]
             s1 == IF e.i \in g.occ THEN s
                   ELSE [s EXCEPT !.blk[e.b].occ = @ \cup {e.i}, !.blk[e.b].free = SelectSeq(@, LAMBDA x : x # e.i)]
             s2 == Swap(s1, e, e.t)
         IN IF e.x = 1 THEN Unlock(s2, e.t) ELSE s2
    [] e.e = "wswap" -> Swap(s, e, e.t)
    [] e.e = "penq"  -> Unlock(Enq(s, e, e.t), e.t)
    [] e.e = "wenq"  -> Enq(s, e, e.t)
    [] e.e = "wnotified" -> Ck(s, e.t \in s.enq, "Notify", e)
    [] e.e = "wdone" -> Unlock(s, e.t)
    [] e.e = "poll"  -> [s EXCEPT !.pw = e.w, !.inpoll = TRUE]
    [] e.e \in {"ret", "vec", "err"} -> [s EXCEPT !.inpoll = FALSE]
    [] e.e = "rega"  -> [s EXCEPT !.blk[e.b].preg = s.blk[e.b].reg, !.blk[e.b].reg = s.pw, !.blk[e.b].pops = 0]
    [] e.e = "wake_b" -> IF e.key = 0 THEN [s EXCEPT !.ext = TRUE] ELSE s
    [] e.e = "wake_e" -> [s EXCEPT !.ext = FALSE]
    [] e.e = "tw" /\ s.ext -> s
    [] e.e = "tw" ->
         \* inside a waker call: the notification of that block; otherwise the owner's own self-wake
         IF e.t \in DOMAIN s.sw
         THEN LET b == s.sw[e.t].key \div 100000
                  s1 == Ck(s, e.t \in s.enq, "Notify", e)
              IN IF Known(s, b)
                 THEN [Ck(s1, s.blk[b].reg = e.w \/ s.blk[b].reg = 0 \/ s.blk[b].preg = e.w, "Notify", e)
                        EXCEPT !.blk[b].reg = IF s.blk[b].reg = e.w THEN 0 ELSE @]
                 ELSE s1
         ELSE Ck(s, s.inpoll /\ e.w = s.pw, "Notify", e)
    [] e.e = "pop" ->
         LET g == s.blk[e.b]
             s1 == Ck(s, g.q # <<>> /\ Head(g.q) = e.i, "Fifo", e)
             s2 == Ck(s1, g.reg = s.pw \/ g.reg = 0, "Reg", e)
             s3 == Ck(s2, s.lastpop[e.b] = -1, "Clear", e)
         IN [s3 EXCEPT !.blk[e.b].q = IF InQ(g.q, e.i) THEN SelectSeq(g.q, LAMBDA x : x # e.i) ELSE g.q,
                       !.blk[e.b].pops = @ + 1, !.lastpop[e.b] = e.i]
    [] e.e = "popclr" ->
         LET g == s.blk[e.b]
             s1 == Ck(s, s.lastpop[e.b] = e.i /\ Holder(s, K(e.b, e.i)) = -1, "Clear", e)
         IN [s1 EXCEPT !.blk[e.b].fl = IF e.i < g.cap THEN [g.fl EXCEPT ![e.i] = FALSE] ELSE g.fl, !.lastpop[e.b] = -1]
    [] e.e = "budget" -> Ck(s, s.blk[e.b].pops = e.max, "Budget", e)
    [] e.e = "ins" ->
         LET g == s.blk[e.b]
             s1 == Ck(s, g.free # <<>> /\ Head(g.free) = e.i /\ e.i \notin g.occ, "Lifo", e)
         IN [s1 EXCEPT !.blk[e.b].free = SelectSeq(g.free, LAMBDA x : x # e.i), !.blk[e.b].occ = @ \cup {e.i}]
    [] e.e = "vac" ->
         LET g == s.blk[e.b] IN
         IF e.i \in g.occ THEN [s EXCEPT !.blk[e.b].free = <<e.i>> \o g.free, !.blk[e.b].occ = @ \ {e.i}] ELSE s
    [] OTHER -> s
=============================================================================
