------------------------------ MODULE RefCount ------------------------------
(***************************************************************************)
(* The manual reference count of one WakerList block (src/waker_list.rs):  *)
(* the collection's handle and every cloned child waker own one unit of    *)
(* `strong`; whoever takes it from 1 to 0 releases the allocation.         *)
(*  - accounting: strong = number of owners; Free exactly at the 1 -> 0    *)
(*    transition, exactly once, by the process that performed it;          *)
(*  - happens-before: every access to the block (queue, flags, waker       *)
(*    cell ...) by any process must happen before the Free.  Processes     *)
(*    carry vector clocks; an atomic RMW on `strong` joins / publishes     *)
(*    clocks according to the ORDERINGS THE CODE USES (constants IncOrd,   *)
(*    DecOrd, FenceOrd, extracted from inc_strong / dec_strong by          *)
(*    tools/extract_orderings.py); RMWs continue release sequences, the    *)
(*    acquire fence after the final decrement synchronises with every      *)
(*    release decrement before it, as the comment in dec_strong argues.    *)
(***************************************************************************)
EXTENDS Naturals, FiniteSets, TLC
CONSTANTS Procs, Owner, IncOrd, DecOrd, FenceOrd, MaxAcc, MaxClones
HasRel(o) == o \in {"Release", "AcqRel", "SeqCst"}
HasAcq(o) == o \in {"Acquire", "AcqRel", "SeqCst"}
VARIABLES holds,   \* units of `strong` owned by each process (the owner's first unit is the handle)
          strong, freed, frees,
          vc,      \* vector clock of each process
          acc,     \* clock value of the last access to the block by each process
          relc,    \* clock published in the release sequence headed on `strong`
          pend,    \* what a decrementing process read from `strong` (joined at its acquire fence)
          st, raced, nclones
vars == <<holds, strong, freed, frees, vc, acc, relc, pend, st, raced, nclones>>
Zero == [q \in Procs |-> 0]
Max(a, b) == IF a >= b THEN a ELSE b
Join(x, y) == [q \in Procs |-> Max(x[q], y[q])]
Init == /\ holds = [p \in Procs |-> IF p = Owner THEN 1 ELSE 0] /\ strong = 1 /\ freed = FALSE /\ frees = 0
        /\ vc = [p \in Procs |-> Zero] /\ acc = Zero /\ relc = Zero /\ pend = [p \in Procs |-> Zero]
        /\ st = [p \in Procs |-> "run"] /\ raced = FALSE /\ nclones = 0
Tick(p) == [vc EXCEPT ![p][p] = @ + 1]
\* any use of the block through a reference: wake (flag, queue, notify), poll (register, dequeue), push ...
Access(p) == /\ st[p] = "run" /\ holds[p] > 0 /\ vc[p][p] < MaxAcc
             /\ vc' = Tick(p) /\ acc' = [acc EXCEPT ![p] = vc[p][p] + 1]
             /\ raced' = (raced \/ freed)
             /\ UNCHANGED <<holds, strong, freed, frees, relc, pend, st, nclones>>
\* clone_waker: fetch_add(1, IncOrd); the new reference may be handed to another process q
\* (handing it over is itself a synchronisation, e.g. a channel: q learns what p knew)
Clone(p, q) == /\ st[p] = "run" /\ holds[p] > 0 /\ nclones < MaxClones /\ st[q] = "run"
               /\ nclones' = nclones + 1 /\ strong' = strong + 1
               /\ LET v1 == IF HasAcq(IncOrd) THEN Join(vc[p], relc) ELSE vc[p] IN
                  /\ relc' = IF HasRel(IncOrd) THEN Join(relc, v1) ELSE relc
                  /\ vc' = IF p = q THEN [vc EXCEPT ![p] = v1] ELSE [vc EXCEPT ![p] = v1, ![q] = Join(vc[q], v1)]
               /\ holds' = [holds EXCEPT ![q] = @ + 1]
               /\ raced' = (raced \/ freed)
               /\ UNCHANGED <<freed, frees, acc, pend, st>>
\* drop_waker / Drop for WakerList: fetch_sub(1, DecOrd); if the old value was 1: fence(FenceOrd), then free
Drop(p) == /\ st[p] = "run" /\ holds[p] > 0
           /\ holds' = [holds EXCEPT ![p] = @ - 1] /\ strong' = strong - 1
           /\ LET v1 == IF HasAcq(DecOrd) THEN Join(vc[p], relc) ELSE vc[p] IN
              /\ vc' = [vc EXCEPT ![p] = v1]
              /\ relc' = IF HasRel(DecOrd) THEN Join(relc, v1) ELSE relc
              /\ pend' = [pend EXCEPT ![p] = relc]
           /\ st' = [st EXCEPT ![p] = IF strong = 1 THEN "fence" ELSE "run"]
           /\ raced' = (raced \/ freed)
           /\ UNCHANGED <<freed, frees, acc, nclones>>
Fence(p) == /\ st[p] = "fence"
            /\ vc' = IF HasAcq(FenceOrd) THEN [vc EXCEPT ![p] = Join(vc[p], pend[p])] ELSE vc
            /\ st' = [st EXCEPT ![p] = "free"]
            /\ UNCHANGED <<holds, strong, freed, frees, acc, relc, pend, raced, nclones>>
Free(p) == /\ st[p] = "free" /\ freed' = TRUE /\ frees' = frees + 1 /\ st' = [st EXCEPT ![p] = "gone"]
           /\ raced' = (raced \/ freed \/ \E q \in Procs \ {p} : vc[p][q] < acc[q])
           /\ UNCHANGED <<holds, strong, vc, acc, relc, pend, nclones>>
Next == \E p \in Procs : Access(p) \/ Drop(p) \/ Fence(p) \/ Free(p) \/ \E q \in Procs : Clone(p, q)
Spec == Init /\ [][Next]_vars
Sum == LET RECURSIVE S(_) S(ps) == IF ps = {} THEN 0 ELSE LET x == CHOOSE x \in ps : TRUE IN holds[x] + S(ps \ {x}) IN S(Procs)
StrongIsOwners == strong = Sum
NoRacyFree == ~raced
FreeOnlyAtZero == freed => strong = 0
FreeOnce == frees <= 1
\* when every owner is gone the block has been (or is about to be) released: no leak
NoLeak == (Sum = 0 /\ \A p \in Procs : st[p] \in {"run", "gone"}) => freed
=============================================================================
