CONSTANTS WaitMul = 3
 WaitAdd = 16
 StaleCap = 100000
SPECIFICATION TSpec
POSTCONDITION Consumed
CHECK_DEADLOCK FALSE
