CONSTANTS WaitMul = 3
 WaitAdd = 16
SPECIFICATION TSpec
POSTCONDITION Consumed
CHECK_DEADLOCK FALSE
