------------------------------ MODULE TraceAbs ------------------------------
(* Trace validation: replays a recorded ndjson event trace of the real crate   *)
(* (env TRACE) through the Abs machine.  Runs inside one file are separated by *)
(* "reset" events; the violations of each run are printed when the run ends.   *)
EXTENDS Abs, Json, IOUtils, TLCExt
Rec == ndJsonDeserialize(IOEnv.TRACE)
VARIABLES l, s
TInit == l = 1 /\ s = Fresh
\* report at the boundary of a run (a "reset" that follows a run, or the end of the file)
Report(st) == IF st.viol # {} THEN PrintT(<<"VIOL", st.run, st.viol>>) ELSE TRUE
TNext == /\ l <= Len(Rec)
         /\ l' = l + 1
         /\ LET e == Rec[l] n == Step(s, e) IN
            /\ s' = n
            /\ (e.e = "reset" => Report(s))
            /\ (l = Len(Rec) => Report(n))
TSpec == TInit /\ [][TNext]_<<l, s>>
\* the whole file has been consumed
Consumed == IF TLCGet("stats").diameter = Len(Rec) + 1 THEN PrintT(<<"CONSUMED", Len(Rec)>>)
            ELSE Print(<<"STUCK at", TLCGet("stats").diameter, Rec[TLCGet("stats").diameter]>>, FALSE)
=============================================================================
