SPECIFICATION TSpec
POSTCONDITION Consumed
CHECK_DEADLOCK FALSE
