----------------------------- MODULE TraceProto -----------------------------
(* Trace validation of the probe traces against the Impl reading of the protocol (ProtoSp).  Deviations are DRIFT. *)
EXTENDS ProtoSp, Json, IOUtils, TLCExt
Rec == ndJsonDeserialize(IOEnv.TRACE)
VARIABLES l, s
TInit == l = 1 /\ s = FreshP
Report(st) == IF st.dev # {} THEN PrintT(<<"DEV", st.run, st.dev>>) ELSE TRUE
TNext == /\ l <= Len(Rec)
         /\ l' = l + 1
         /\ LET e == Rec[l] n == StepP(s, e) IN
            /\ s' = n
            /\ (e.e = "reset" => Report(s))
            /\ (l = Len(Rec) => Report(n))
TSpec == TInit /\ [][TNext]_<<l, s>>
Consumed == IF TLCGet("stats").diameter = Len(Rec) + 1 THEN PrintT(<<"CONSUMED", Len(Rec)>>)
            ELSE Print(<<"STUCK at", TLCGet("stats").diameter, Rec[TLCGet("stats").diameter]>>, FALSE)
=============================================================================
