------------------------------ MODULE TraceRc ------------------------------
(* Trace validation of the probe events against AbsRc (C03). *)
EXTENDS AbsRc, Json, IOUtils, TLCExt
Rec == ndJsonDeserialize(IOEnv.TRACE)
VARIABLES l, s
TInit == l = 1 /\ s = FreshRc
Report(st) == IF st.viol # {} THEN PrintT(<<"VIOL", st.run, st.viol>>) ELSE TRUE
TNext == /\ l <= Len(Rec)
         /\ l' = l + 1
         /\ LET e == Rec[l] n == StepRc(s, e) IN
            /\ s' = n
            /\ (e.e = "reset" => Report(s))
            /\ (l = Len(Rec) => Report(n))
TSpec == TInit /\ [][TNext]_<<l, s>>
Consumed == IF TLCGet("stats").diameter = Len(Rec) + 1 THEN PrintT(<<"CONSUMED", Len(Rec)>>)
            ELSE Print(<<"STUCK at", TLCGet("stats").diameter, Rec[TLCGet("stats").diameter]>>, FALSE)
=============================================================================
