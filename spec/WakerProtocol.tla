--------------------------- MODULE WakerProtocol ---------------------------
(***************************************************************************)
(* The wake-up protocol of one WakerList block at the grain of single      *)
(* atomic operations, for all interleavings of producer threads (holding   *)
(* cloned child wakers: wake_by_ref) with the owner thread (push, poll).   *)
(*                                                                         *)
(*  slot:   wake_lock (spin mutex), flag ("already queued")                *)
(*  queue:  the cordyceps MPSC queue = Vyukov's intrusive queue            *)
(*          enqueue   = next[n] := Null ; prev := swap(head, n) ;          *)
(*                      next[prev] := n            (3 steps, W3..W5)       *)
(*          dequeue   = try_dequeue_unchecked incl. the stub re-insertion  *)
(*                      and the Inconsistent answer  (D1..D6)              *)
(*  waker:  the DiatomicWaker, transcribed from the transition tables      *)
(*          printed in diatomic-waker's source: bits N L R U I, two waker  *)
(*          cells; register = R1..R5, notify = try_lock / wake / try_unlock*)
(*  poll:   register ; loop { budget ; pop ; clear flag ; poll child }     *)
(*                                                                         *)
(* Checked: no lost wake-up (C01) with the task waker of the most recent   *)
(* poll, a node is never enqueued while linked, single consumer, a         *)
(* notification is never delivered before its enqueue.                     *)
(* Mut selects deliberately broken variants (non-vacuity controls).        *)
(***************************************************************************)
EXTENDS Naturals, Sequences, FiniteSets, TLC
CONSTANTS NSlots, Producers, Budget, MaxWakes, MaxPolls, MaxPush, NWakers, Mut
Slots == 0..(NSlots-1)
Stub == NSlots
Nodes == 0..NSlots
Null == 99
C == "C"
VARIABLES flag, lock, head, tail, next,       \* slots and the MPSC queue
          dw, cell,                           \* DiatomicWaker: [N, L, R, U, I] and the two waker cells (0 = empty)
          occ, needs, handed, polled,         \* children: slot occupied / owed a poll / a waker of the slot exists (possibly a
                                              \* stale one of an earlier occupant) / the current occupant has been polled
          woken, lastRes, pw,                 \* task wakers invoked since the poll began; result and waker of the last poll
          ppc, pslot, pprev, pwakes, pst,     \* producers
          cpc, cnt, ct, cnx, cprev, cpolls, cpush, cpslot, cst, cidx   \* the owner
vars == <<flag, lock, head, tail, next, dw, cell, occ, needs, handed, polled, woken, lastRes, pw,
          ppc, pslot, pprev, pwakes, pst, cpc, cnt, ct, cnx, cprev, cpolls, cpush, cpslot, cst, cidx>>

Init == /\ flag = [s \in Slots |-> FALSE] /\ lock = [s \in Slots |-> "free"]
        /\ head = Stub /\ tail = Stub /\ next = [n \in Nodes |-> Null]
        /\ dw = [N |-> FALSE, L |-> FALSE, R |-> FALSE, U |-> FALSE, I |-> 0] /\ cell = <<0, 0>>
        /\ occ = [s \in Slots |-> FALSE] /\ needs = [s \in Slots |-> FALSE] /\ handed = [s \in Slots |-> FALSE]
        /\ polled = [s \in Slots |-> FALSE]
        /\ woken = {} /\ lastRes = "init" /\ pw = 0
        /\ ppc = [p \in Producers |-> "w0"] /\ pslot = [p \in Producers |-> 0] /\ pprev = [p \in Producers |-> Null]
        /\ pwakes = [p \in Producers |-> 0] /\ pst = [p \in Producers |-> dw]
        /\ cpc = "idle" /\ cnt = 0 /\ ct = Null /\ cnx = Null /\ cprev = Null /\ cpolls = 0 /\ cpush = 0 /\ cpslot = 0
        /\ cst = dw /\ cidx = 0

PU == <<ppc, pslot, pprev, pwakes, pst>>
CU == <<cpc, cnt, ct, cnx, cprev, cpolls, cpush, cpslot, cst, cidx>>
Q  == <<head, tail, next>>
DW == <<dw, cell>>
CH == <<occ, needs, handed, polled>>
TW == <<woken, lastRes, pw>>

\* ---------------- DiatomicWaker transition tables ----------------
\* try_lock: <<ok, new state>>
TryLock(s) ==
  IF ~s.L /\ s.R
  THEN <<TRUE, [N |-> FALSE, L |-> TRUE, R |-> FALSE, U |-> FALSE, I |-> IF s.U THEN 1 - s.I ELSE s.I]>>
  ELSE <<FALSE, [s EXCEPT !.N = s.N \/ s.R]>>      \* failure: ask the lock holder to notify on our behalf
\* try_unlock(old): success iff no NOTIFICATION
TryUnlock(s) ==
  IF ~s.N THEN <<TRUE, [s EXCEPT !.L = FALSE]>>
  ELSE <<FALSE, [N |-> FALSE, L |-> TRUE, R |-> FALSE, U |-> FALSE, I |-> IF s.U THEN 1 - s.I ELSE s.I]>>

\* ---------------- producers: wake_by_ref(slot) ----------------
PSet(p, l) == ppc' = [ppc EXCEPT ![p] = l]
W0(p) == /\ ppc[p] = "w0" /\ pwakes[p] < MaxWakes
         /\ \E s \in Slots : handed[s] /\ pslot' = [pslot EXCEPT ![p] = s]
              \* only a waker that was handed to the CURRENT occupant creates an obligation (a stale one does not)
              /\ needs' = IF occ[s] /\ polled[s] THEN [needs EXCEPT ![s] = TRUE] ELSE needs
         /\ pwakes' = [pwakes EXCEPT ![p] = @ + 1]
         /\ PSet(p, "w1") /\ UNCHANGED <<flag, lock, Q, DW, occ, handed, polled, TW, pprev, pst, CU>>
W1(p) == /\ ppc[p] = "w1" /\ lock[pslot[p]] = "free"
         /\ lock' = [lock EXCEPT ![pslot[p]] = p] /\ PSet(p, "w2")
         /\ UNCHANGED <<flag, Q, DW, CH, TW, pslot, pprev, pwakes, pst, CU>>
W2(p) == /\ ppc[p] = "w2"
         /\ flag' = [flag EXCEPT ![pslot[p]] = TRUE]
         /\ PSet(p, IF flag[pslot[p]] /\ Mut # "no_flag_guard" THEN "w7"
                    ELSE IF Mut = "notify_before_enqueue" THEN "n1" ELSE "w3")
         /\ UNCHANGED <<lock, Q, DW, CH, TW, pslot, pprev, pwakes, pst, CU>>
W3(p) == /\ ppc[p] = "w3" /\ next' = [next EXCEPT ![pslot[p]] = Null] /\ PSet(p, "w4")
         /\ UNCHANGED <<flag, lock, head, tail, DW, CH, TW, pslot, pprev, pwakes, pst, CU>>
W4(p) == /\ ppc[p] = "w4" /\ pprev' = [pprev EXCEPT ![p] = head] /\ head' = pslot[p] /\ PSet(p, "w5")
         /\ UNCHANGED <<flag, lock, tail, next, DW, CH, TW, pslot, pwakes, pst, CU>>
W5(p) == /\ ppc[p] = "w5" /\ next' = [next EXCEPT ![pprev[p]] = pslot[p]]
         /\ PSet(p, IF Mut = "notify_before_enqueue" THEN "w7" ELSE IF Mut = "no_notify" THEN "w7" ELSE "n1")
         /\ UNCHANGED <<flag, lock, head, tail, DW, CH, TW, pslot, pprev, pwakes, pst, CU>>
\* notify(): try_lock ; loop { wake cell[I] ; try_unlock }
N1(p) == /\ ppc[p] = "n1"
         /\ LET r == TryLock(dw) IN
            /\ dw' = r[2] /\ pst' = [pst EXCEPT ![p] = r[2]]
            /\ PSet(p, IF r[1] THEN "n2" ELSE IF Mut = "notify_before_enqueue" THEN "w3" ELSE "w7")
         /\ UNCHANGED <<flag, lock, Q, cell, CH, TW, pslot, pprev, pwakes, CU>>
N2(p) == /\ ppc[p] = "n2"
         /\ woken' = IF cell[pst[p].I + 1] # 0 THEN woken \cup {cell[pst[p].I + 1]} ELSE woken
         /\ PSet(p, "n3")
         /\ UNCHANGED <<flag, lock, Q, DW, CH, lastRes, pw, pslot, pprev, pwakes, pst, CU>>
N3(p) == /\ ppc[p] = "n3"
         /\ LET r == TryUnlock(dw) IN     \* a CAS on the current value: compare_exchange loops until it applies
            /\ dw' = r[2] /\ pst' = [pst EXCEPT ![p] = r[2]]
            /\ PSet(p, IF r[1] THEN (IF Mut = "notify_before_enqueue" THEN "w3" ELSE "w7") ELSE "n2")
         /\ UNCHANGED <<flag, lock, Q, cell, CH, TW, pslot, pprev, pwakes, CU>>
W7(p) == /\ ppc[p] = "w7" /\ lock' = [lock EXCEPT ![pslot[p]] = "free"] /\ PSet(p, "w0")
         /\ UNCHANGED <<flag, Q, DW, CH, TW, pslot, pprev, pwakes, pst, CU>>
Producer(p) == W0(p) \/ W1(p) \/ W2(p) \/ W3(p) \/ W4(p) \/ W5(p) \/ N1(p) \/ N2(p) \/ N3(p) \/ W7(p)

\* ---------------- the owner ----------------
\* push a new child into a free slot: lock, swap flag, enqueue (3 steps), no notify
CPush0 == /\ cpc = "idle" /\ cpush < MaxPush
          /\ \E s \in Slots : ~occ[s] /\ cpslot' = s /\ occ' = [occ EXCEPT ![s] = TRUE]
               /\ needs' = [needs EXCEPT ![s] = FALSE] /\ polled' = [polled EXCEPT ![s] = FALSE]
          /\ cpush' = cpush + 1 /\ cpc' = "p1"
          /\ UNCHANGED <<flag, lock, Q, DW, handed, TW, PU, cnt, ct, cnx, cprev, cpolls, cst, cidx>>
CPush1 == /\ cpc = "p1" /\ lock[cpslot] = "free" /\ lock' = [lock EXCEPT ![cpslot] = C] /\ cpc' = "p2"
          /\ UNCHANGED <<flag, Q, DW, CH, TW, PU, cnt, ct, cnx, cprev, cpolls, cpush, cpslot, cst, cidx>>
CPush2 == /\ cpc = "p2" /\ flag' = [flag EXCEPT ![cpslot] = TRUE]
          /\ IF flag[cpslot] THEN cpc' = "p6" /\ UNCHANGED next ELSE cpc' = "p4" /\ next' = [next EXCEPT ![cpslot] = Null]
          /\ UNCHANGED <<lock, head, tail, DW, CH, TW, PU, cnt, ct, cnx, cprev, cpolls, cpush, cpslot, cst, cidx>>
CPush4 == /\ cpc = "p4" /\ cprev' = head /\ head' = cpslot /\ cpc' = "p5"
          /\ UNCHANGED <<flag, lock, tail, next, DW, CH, TW, PU, cnt, ct, cnx, cpolls, cpush, cpslot, cst, cidx>>
CPush5 == /\ cpc = "p5" /\ next' = [next EXCEPT ![cprev] = cpslot] /\ cpc' = "p6"
          /\ UNCHANGED <<flag, lock, head, tail, DW, CH, TW, PU, cnt, ct, cnx, cprev, cpolls, cpush, cpslot, cst, cidx>>
CPush6 == /\ cpc = "p6" /\ lock' = [lock EXCEPT ![cpslot] = "free"] /\ cpc' = "idle"
          /\ UNCHANGED <<flag, Q, DW, CH, TW, PU, cnt, ct, cnx, cprev, cpolls, cpush, cpslot, cst, cidx>>

\* poll with task waker w: is_empty test, then register (R1..R5), then the loop
PollBegin == /\ cpc = "idle" /\ cpolls < MaxPolls /\ cpolls' = cpolls + 1
             /\ \E w \in 1..NWakers :
                  IF \A s \in Slots : ~occ[s]
                  THEN lastRes' = "None" /\ UNCHANGED <<cpc, cnt, woken, needs, pw>>
                  ELSE /\ cpc' = (IF Mut = "register_after_drain" THEN "loop" ELSE "r1") /\ cnt' = 0
                       /\ woken' = {} /\ lastRes' = "inpoll" /\ pw' = w
                       /\ needs' = [s \in Slots |-> needs[s] \/ (occ[s] /\ ~polled[s])]
             /\ UNCHANGED <<flag, lock, Q, DW, occ, handed, polled, PU, ct, cnx, cprev, cpush, cpslot, cst, cidx>>
AfterReg == IF Mut = "register_after_drain" THEN "retp" ELSE "loop"
\* register: load the state
R1 == /\ cpc = "r1" /\ cst' = dw /\ cpc' = "r2"
      /\ UNCHANGED <<flag, lock, Q, DW, CH, TW, PU, cnt, ct, cnx, cprev, cpolls, cpush, cpslot, cidx>>
\* register: the most recent waker is the same -> fetch_or(R)
R2 == /\ cpc = "r2"
      /\ LET recent == IF cst.U THEN 1 - cst.I ELSE cst.I IN
         IF cell[recent + 1] = pw
         THEN dw' = [dw EXCEPT !.R = TRUE] /\ cpc' = AfterReg /\ UNCHANGED cidx
         ELSE IF cst.U /\ cst.R
              THEN dw' = [dw EXCEPT !.R = FALSE, !.N = FALSE] /\ cidx' = dw.I /\ cpc' = "r4"   \* fetch_and: exclusive access
              ELSE UNCHANGED dw /\ cidx' = cst.I /\ cpc' = "r4"
      /\ UNCHANGED <<flag, lock, Q, cell, CH, TW, PU, cnt, ct, cnx, cprev, cpolls, cpush, cpslot, cst>>
\* register: store the waker in the redundant cell
R4 == /\ cpc = "r4" /\ cell' = [cell EXCEPT ![(1 - cidx) + 1] = pw] /\ cpc' = "r5"
      /\ UNCHANGED <<flag, lock, Q, dw, CH, TW, PU, cnt, ct, cnx, cprev, cpolls, cpush, cpslot, cst, cidx>>
\* register: fetch_or(U | R)
R5 == /\ cpc = "r5" /\ dw' = [dw EXCEPT !.U = TRUE, !.R = TRUE] /\ cpc' = AfterReg
      /\ UNCHANGED <<flag, lock, Q, cell, CH, TW, PU, cnt, ct, cnx, cprev, cpolls, cpush, cpslot, cst, cidx>>

Ret(res, wake) == /\ cpc' = "idle" /\ lastRes' = res /\ woken' = (IF wake THEN woken \cup {pw} ELSE woken) /\ UNCHANGED pw
RetP == /\ cpc = "retp" /\ Ret("Pending", FALSE)
        /\ UNCHANGED <<flag, lock, Q, DW, CH, PU, cnt, ct, cnx, cprev, cpolls, cpush, cpslot, cst, cidx>>
Leave(res, wake) == IF Mut = "register_after_drain" /\ res = "Pending"
                    THEN cpc' = "r1" /\ lastRes' = lastRes /\ woken' = (IF wake THEN woken \cup {pw} ELSE woken) /\ UNCHANGED pw
                    ELSE Ret(res, wake)
Loop == /\ cpc = "loop"
        /\ IF cnt + 1 > Budget THEN Leave("Pending", Mut # "no_budget_wake") /\ UNCHANGED cnt
           ELSE cnt' = cnt + 1 /\ cpc' = "d1" /\ UNCHANGED TW
        /\ UNCHANGED <<flag, lock, Q, DW, CH, PU, ct, cnx, cprev, cpolls, cpush, cpslot, cst, cidx>>
D1 == /\ cpc = "d1" /\ ct' = tail /\ cnx' = next[tail] /\ cpc' = "d2"
      /\ UNCHANGED <<flag, lock, Q, DW, CH, TW, PU, cnt, cprev, cpolls, cpush, cpslot, cst, cidx>>
D2 == /\ cpc = "d2"
      /\ IF ct = Stub
         THEN IF cnx = Null THEN Leave("Pending", FALSE) /\ UNCHANGED <<tail, ct, cnx>>
              ELSE tail' = cnx /\ ct' = cnx /\ cnx' = next[cnx] /\ cpc' = "d3" /\ UNCHANGED TW
         ELSE cpc' = "d3" /\ UNCHANGED <<tail, ct, cnx, TW>>
      /\ UNCHANGED <<flag, lock, head, next, DW, CH, PU, cnt, cprev, cpolls, cpush, cpslot, cst, cidx>>
D3 == /\ cpc = "d3"
      /\ IF cnx # Null THEN tail' = cnx /\ cpc' = "got" /\ UNCHANGED TW
         ELSE IF ct # head THEN Leave("Pending", Mut # "no_inconsistent_wake") /\ UNCHANGED tail   \* Inconsistent -> self wake
         ELSE cpc' = "d5" /\ UNCHANGED <<tail, TW>>
      /\ UNCHANGED <<flag, lock, head, next, DW, CH, PU, cnt, ct, cnx, cprev, cpolls, cpush, cpslot, cst, cidx>>
D5 == /\ cpc = "d5" /\ next' = [next EXCEPT ![Stub] = Null] /\ cpc' = "d5a"
      /\ UNCHANGED <<flag, lock, head, tail, DW, CH, TW, PU, cnt, ct, cnx, cprev, cpolls, cpush, cpslot, cst, cidx>>
D5a == /\ cpc = "d5a" /\ cprev' = head /\ head' = Stub /\ cpc' = "d5b"
       /\ UNCHANGED <<flag, lock, tail, next, DW, CH, TW, PU, cnt, ct, cnx, cpolls, cpush, cpslot, cst, cidx>>
D5b == /\ cpc = "d5b" /\ next' = [next EXCEPT ![cprev] = Stub] /\ cpc' = "d6"
       /\ UNCHANGED <<flag, lock, head, tail, DW, CH, TW, PU, cnt, ct, cnx, cprev, cpolls, cpush, cpslot, cst, cidx>>
D6 == /\ cpc = "d6"
      /\ IF next[ct] = Null THEN Leave("Pending", Mut # "no_inconsistent_wake") /\ UNCHANGED tail
         ELSE tail' = next[ct] /\ cpc' = "got" /\ UNCHANGED TW
      /\ UNCHANGED <<flag, lock, head, next, DW, CH, PU, cnt, ct, cnx, cprev, cpolls, cpush, cpslot, cst, cidx>>
\* pop(): the queued flag is cleared before the child is polled
Got == /\ cpc = "got" /\ lock[ct] = "free"
       /\ flag' = (IF Mut = "clear_after_poll" THEN flag ELSE [flag EXCEPT ![ct] = FALSE]) /\ cpc' = "child"
       /\ UNCHANGED <<lock, Q, DW, CH, TW, PU, cnt, ct, cnx, cprev, cpolls, cpush, cpslot, cst, cidx>>
\* the child's poll is not atomic: it looks at its state when the poll begins (ChildIn) and answers later (ChildOut);
\* a wake may arrive in between and must buy another poll
ChildIn == /\ cpc = "child"
           /\ IF ~occ[ct] THEN cpc' = (IF Mut = "clear_after_poll" THEN "childout" ELSE "loop") /\ UNCHANGED CH
              ELSE /\ handed' = [handed EXCEPT ![ct] = TRUE] /\ polled' = [polled EXCEPT ![ct] = TRUE]
                   /\ needs' = [needs EXCEPT ![ct] = FALSE]
                   /\ cpc' = "childout" /\ UNCHANGED occ
           /\ UNCHANGED <<flag, lock, Q, DW, TW, PU, cnt, ct, cnx, cprev, cpolls, cpush, cpslot, cst, cidx>>
ChildOut == /\ cpc = "childout"
            /\ flag' = (IF Mut = "clear_after_poll" THEN [flag EXCEPT ![ct] = FALSE] ELSE flag)
            /\ IF ~occ[ct] THEN cpc' = "loop" /\ UNCHANGED <<occ, TW>>
               ELSE \/ cpc' = "loop" /\ UNCHANGED <<occ, TW>>
                    \/ occ' = [occ EXCEPT ![ct] = FALSE] /\ Ret("Yield", FALSE)
            /\ UNCHANGED <<lock, Q, DW, needs, handed, polled, PU, cnt, ct, cnx, cprev, cpolls, cpush, cpslot, cst, cidx>>
Consumer == CPush0 \/ CPush1 \/ CPush2 \/ CPush4 \/ CPush5 \/ CPush6 \/ PollBegin \/ R1 \/ R2 \/ R4 \/ R5 \/ RetP \/ Loop
            \/ D1 \/ D2 \/ D3 \/ D5 \/ D5a \/ D5b \/ D6 \/ Got \/ ChildIn \/ ChildOut
Next == Consumer \/ \E p \in Producers : Producer(p)
Spec == Init /\ [][Next]_vars

\* ---------------- properties ----------------
Quiescent == \A p \in Producers : ppc[p] = "w0"
\* C01: asleep after Pending with a child owed a poll  =>  the task waker of that poll has been invoked
NoLostWakeup == (cpc = "idle" /\ lastRes = "Pending" /\ Quiescent /\ \E s \in Slots : occ[s] /\ needs[s]) => pw \in woken
\* the intrusive list is a list: following `next` from tail never cycles and a slot is linked at most once
RECURSIVE Chain(_, _)
Chain(n, k) == IF n = Null \/ k = 0 THEN <<>> ELSE <<n>> \o Chain(next[n], k - 1)
ListSound == LET c == Chain(tail, NSlots + 2) IN
             /\ Len(c) <= NSlots + 1
             /\ \A a, b \in 1..Len(c) : c[a] = c[b] => a = b
\* valid DiatomicWaker states: N implies L and R
DwValid == dw.N => (dw.L /\ dw.R)
\* only the owner dequeues and registers (structural: the actions D*, R* belong to the owner) and it never holds a slot lock across steps other than push
NoLockLeak == cpc \in {"idle", "loop", "d1", "r1"} => \A s \in Slots : lock[s] # C
=============================================================================
