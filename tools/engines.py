"""Property-specific engines called by `check` (the 'extra' entries of tools/plan.py).
Each engine gets the check module (ck), and appends to ev / violations like the generic pipeline does."""
import os, json, re, time, subprocess, sys

def _validate_and_collect(ck, prop, source, trace, scn, work, ev, violations, known, knownhits, module='TraceAbs.tla', cfg='TraceAbs.cfg', runs=None):
    tv = time.time()
    events, viols = ck.validate(trace, work, module, cfg)
    nruns = runs if runs is not None else sum(1 for _ in open(scn)) if scn and os.path.exists(scn) else 0
    ev['runs'].append({'source': source, 'runs': nruns, 'events': events, 'violating_runs': len(set(v[0] for v in viols))})
    ck.log('[%s] validated %s: %d runs, %d events, %d violating, %.0fs' % (prop, source, nruns, events, len(set(v[0] for v in viols)), time.time() - tv))
    for (run, vp, reason) in viols:
        if vp != prop: continue
        sc = ck.scenario_of(scn, run) if scn and os.path.exists(scn) else {}
        k = ck.match_known(known, vp, reason, sc)
        if k:
            knownhits.setdefault(k['id'], [k, 0])[1] += 1
            continue
        if len(violations) < 5:
            violations.append((vp, reason, sc, ck.trace_of_run(trace, run), source))
        else:
            violations.append((vp, reason, {'id': sc.get('id')}, [], source))
    return events

def _proto_drift(ck, prop, source, trace, work, ev):
    """probe traces against the Impl reading of the protocol at hook grain (ProtoSp.tla); deviations are DRIFT only"""
    from concurrent.futures import ThreadPoolExecutor
    parts = ck.split_trace(trace, 8, work)
    def one(pth):
        rc, o = ck.tlc(os.path.join(ck.SPEC, 'TraceProto.tla'), os.path.join(ck.SPEC, 'TraceProto.cfg'), work, workers=1, env={'TRACE': pth}, timeout=1500, xmx='6g', dfs=True)
        if 'CONSUMED' not in o:
            ck.log(o[-1500:]); raise ck.ToolError('TraceProto did not consume %s' % pth)
        return o
    with ThreadPoolExecutor(max_workers=8) as ex:
        out = '\n'.join(ex.map(one, parts))
    for pth in parts:
        if pth != trace: os.remove(pth)
    devs = re.findall(r'<<\s*"DEV",\s*(\d+),\s*\{(.*?)\}\s*>>', out, re.S)
    clauses = sorted(set(re.findall(r'<<"(\w+)", "(\w+)">>', ' '.join(d[1] for d in devs))))
    pd = ev.setdefault('extra_cov', {}).setdefault('protocol_conformance', {'traces': 0, 'runs_with_deviation': 0, 'clauses': []})
    pd['traces'] += 1; pd['runs_with_deviation'] += len(devs); pd['clauses'] = sorted(set(map(tuple, pd['clauses'])) | set(clauses))
    if devs:
        ck.log('[%s] DRIFT(protocol) %s: %d runs deviate from ProtoSp: %s' % (prop, source, len(devs), clauses[:6]))
        print('DRIFT: %d run(s) of %s deviate from the Impl reading of the wake-up protocol (ProtoSp.tla): %s' % (len(devs), source, clauses[:6]))

# ------------------------------------------------------------------------------------------------ C04
def ordered_engine(ck, prop, tier, seed, work, ev, violations, known, knownhits):
    """Ordered.tla: the ordering layer with K-bit wrapping counters, ALL start values, checked exhaustively;
    its behaviours are executed on the real 64-bit FuturesOrdered / FuturesOrderedBounded (start values mapped
    landmark + offset through the seeding hook) and the recorded traces validated against Abs (C04)."""
    ks = [4, 5] if tier == 'thorough' else [4]
    for k in ks:
        t = time.time()
        rc, out = ck.tlc(os.path.join(ck.SPEC, 'MC_Ordered.tla'), os.path.join(ck.SPEC, 'MC_Ordered_k%d.cfg' % k), work, workers=8, timeout=1500)
        gen, dist = ck.parse_counts(out)
        if 'No error has been found' not in out:
            ck.log(out[-2000:]); raise ck.ToolError('Ordered.tla K=%d failed' % k)
        ev['mc'].append({'name': 'Ordered_k%d' % k, 'module': 'Ordered.tla', 'states': dist, 'transitions': gen, 'ok': True, 'violated': None,
                         'expect': 'pass', 'wall_s': round(time.time() - t, 1),
                         'constants': {'K': k, 'MaxPush': k + 1, 'MaxWin': k - 1, 'start values': 'all %d' % (2 ** k), 'HomOK': 'K -> K+3 bits'}})
        ck.log('[%s] mc Ordered K=%d: %d states, %.0fs' % (prop, k, dist, time.time() - t))
    # scenario export (K = 4) and replay on the real collections
    rc, out = ck.tlc(os.path.join(ck.SPEC, 'MC_Ordered.tla'), os.path.join(ck.SPEC, 'Gen_Ordered_k4.cfg'), work, workers=8, timeout=900)
    raw = os.path.join(work, 'gen_ord.out'); open(raw, 'w').write(out)
    pred = os.path.join(work, 'pred_ord.jsonl')
    target = 0 if tier == 'thorough' else 1500
    rc2, o2 = ck.sh([sys.executable, os.path.join(ck.ROOT, 'tools', 'scn_extract.py'), raw, pred, '--target', str(target), '--offset', str(seed), '--min-events', '3'])
    os.remove(raw)
    st = json.loads(o2.strip().splitlines()[-1]); st.update({'name': 'ordered_k4', 'mode': 'cover'})
    ev['gen'].append(st)
    for kind in ('fo', 'fob'):
        trace = os.path.join(work, 'ord_%s.ndjson' % kind); scn = os.path.join(work, 'ord_%s.scn' % kind)
        rc, out = ck.sh([ck.FBV, 'replay-ord', pred, trace, '--kind', kind, '--scn-out', scn], timeout=900)
        if rc != 0: raise ck.ToolError('replay-ord crashed: ' + out[-300:])
        _validate_and_collect(ck, prop, 'gen:Ordered.tla K=4 -> %s' % kind, trace, scn, work, ev, violations, known, knownhits)
        for f in (trace, scn): os.remove(f)
    os.remove(pred)

# ------------------------------------------------------------------------------------------------ C01 / C12
def protocol_engine(ck, prop, tier, seed, work, ev, violations, known, knownhits):
    """WakerProtocol.tla: the wake-up protocol at atomic-operation grain (Vyukov queue in three steps, dequeue with stub
    re-insertion and the Inconsistent answer, DiatomicWaker bit tables, two task wakers), all interleavings of the bound."""
    cfgs = [('base', {}), ('budget1', {'Budget': 1})]
    if tier == 'thorough':
        cfgs += [('polls3', {'MaxPolls': 3}), ('push3', {'MaxPush': 3, 'MaxPolls': 2})]
    base = open(os.path.join(ck.SPEC, 'MC_WakerProtocol.cfg')).read()
    for name, over in cfgs:
        txt = base
        for k, v in over.items():
            txt = re.sub(r' %s = \d+' % k, ' %s = %d' % (k, v), txt)
        cfg = os.path.join(work, 'wp_%s.cfg' % name); open(cfg, 'w').write(txt)
        t = time.time()
        rc, out = ck.tlc(os.path.join(ck.SPEC, 'WakerProtocol.tla'), cfg, work, workers=8, timeout=2400, xmx='12g')
        gen, dist = ck.parse_counts(out)
        if 'No error has been found' not in out:
            ck.log(out[-2000:]); raise ck.ToolError('WakerProtocol.tla (%s) failed' % name)
        consts = dict(re.findall(r' (\w+) = (\d+)', txt))
        ev['mc'].append({'name': 'WakerProtocol_' + name, 'module': 'WakerProtocol.tla', 'states': dist, 'transitions': gen, 'ok': True, 'violated': None,
                         'expect': 'pass', 'wall_s': round(time.time() - t, 1), 'constants': consts})
        ck.log('[%s] mc WakerProtocol %s: %d states, %.0fs' % (prop, name, dist, time.time() - t))

# ------------------------------------------------------------------------------------------------ C03
def refcount_engine(ck, prop, tier, seed, work, ev, violations, known, knownhits):
    """RefCount.tla with the atomic orderings extracted from the code (static binding), then the probe events of
    real executions (single-threaded scenarios, free-running threads, gate-scheduled threads) validated by AbsRc."""
    rc, out = ck.sh([sys.executable, os.path.join(ck.ROOT, 'tools', 'extract_orderings.py'), os.path.join(os.environ.get('VERIF_REPO', '/repo'), 'src', 'waker_list.rs')])
    if rc != 0:
        raise ck.ToolError('cannot extract the reference-count orderings from src/waker_list.rs: ' + out.strip()[-200:])
    ords = json.loads(out.strip().splitlines()[-1])
    cfg = os.path.join(work, 'rc.cfg')
    procs = '{o, a, b}'
    open(cfg, 'w').write('SPECIFICATION Spec\nCONSTANTS Procs = %s\n Owner = o\n IncOrd = "%s"\n DecOrd = "%s"\n FenceOrd = "%s"\n MaxAcc = 2\n MaxClones = %d\n'
                         'INVARIANTS StrongIsOwners NoRacyFree FreeOnlyAtZero FreeOnce NoLeak\nCHECK_DEADLOCK FALSE\n'
                         % (procs, ords['IncOrd'], ords['DecOrd'], ords['FenceOrd'], 4 if tier == 'thorough' else 3))
    t = time.time()
    rc, out = ck.tlc(os.path.join(ck.SPEC, 'RefCount.tla'), cfg, work, workers=8, timeout=1500)
    gen, dist = ck.parse_counts(out)
    ok = 'No error has been found' in out
    ev['mc'].append({'name': 'RefCount', 'module': 'RefCount.tla', 'states': dist, 'transitions': gen, 'ok': ok, 'violated': None if ok else 'NoRacyFree/accounting',
                     'expect': 'pass', 'wall_s': round(time.time() - t, 1), 'constants': dict(ords, Procs=3, MaxAcc=2)})
    ev.setdefault('extra_cov', {})['orderings_extracted'] = ords
    ck.log('[%s] mc RefCount with %s: %d states, ok=%s' % (prop, ords, dist, ok))
    if not ok:
        m = re.search(r'Invariant (\w+) is violated', out)
        if not m: ck.log(out[-2000:]); raise ck.ToolError('RefCount.tla failed')
        violations.append((prop, 'with the atomic orderings found in src/waker_list.rs (%s) RefCount.tla refutes %s: the release of the block can race with a use of it'
                           % (ords, m.group(1)), {'id': 'static:orderings', 'orderings': ords}, [], 'mc:RefCount.tla'))
    # probe traces of real executions
    jobs = []
    for kind, size, prof, nq, nt in (('fub', 'small', 'mix', 300, 3000), ('fub', 'real', 'mix', 30, 300), ('fu', 'small', 'mix', 300, 3000),
                                     ('fu', 'real', 'mix', 30, 300), ('fo', 'small', 'mix', 150, 1500), ('mu', 'small', 'mix', 150, 1500),
                                     ('mb', 'small', 'mix', 100, 1000), ('bu', 'small', 'mix', 100, 1000), ('ja', 'small', 'mix', 100, 1000),
                                     ('fub', 'real', 'stale', 10, 100), ('fu', 'real', 'oscillate', 10, 100)):
        job = {'kind': kind, 'size': size, 'profile': prof, 'n_quick': nq, 'n_thorough': nt, 'hooklog': True}
        r = ck.run_random(job, work, seed, tier)
        src = 'random+probes:%s/%s/%s' % (kind, size, prof)
        if 'crash' in r:
            violations.append((prop, 'the harness process died with status %s while driving the crate through its safe API (memory unsafety)' % r['crash'],
                               {'id': src}, [r['out'][-500:]], src))
            continue
        _validate_and_collect(ck, prop, src, r['trace'], r['scn'], work, ev, violations, known, knownhits, 'TraceRc.tla', 'TraceRc.cfg', runs=r['runs'])
        _proto_drift(ck, prop, src, r['trace'], work, ev)
        for f in (r['trace'], r['scn']):
            if os.path.exists(f): os.remove(f)
    threads_engine(ck, prop, tier, seed, work, ev, violations, known, knownhits)

def threads_engine(ck, prop, tier, seed, work, ev, violations, known, knownhits):
    """real threads: (1) every schedule with at most PB preemptions of seven small owner/producer programs, forced onto
    real threads by the gate scheduler (exact order); (2) seeded random gate schedules of random programs;
    (3) free-running stress (C03 only: order-insensitive clauses)"""
    n = 6000 if tier == 'thorough' else 600
    pb = 3 if tier == 'thorough' else 2
    for mode in ('exhaust', 'gate', 'stress'):
        if mode == 'stress' and prop != 'C03': continue
        trace = os.path.join(work, '%s.ndjson' % mode); scn = os.path.join(work, '%s.scn' % mode)
        if mode == 'exhaust':
            cmd = [ck.FBV, 'gate', 'exhaust', '--pb', str(pb), '--limit', '60000', '--out', trace, '--scn-out', scn]
        else:
            cmd = [ck.FBV, 'gate', mode, '--seed', str(seed), '--n', str(n if mode == 'gate' else max(40, n // 10)), '--out', trace, '--scn-out', scn]
        t = time.time()
        rc, out = ck.sh(cmd, timeout=2400)
        src = 'threads:%s' % (mode if mode != 'exhaust' else 'exhaustive schedules, preemption bound %d' % pb)
        if rc == 3:
            st = {'runs': sum(1 for _ in open(scn))}
            ev.setdefault('hung', []).append(src); ck.log('[%s] the crate HUNG in %s (partial trace validated)' % (prop, src))
        elif rc != 0:
            if prop in ('C03',):
                violations.append((prop, 'the harness process died with status %s under %s threads (memory unsafety)' % (rc, mode), {'id': src}, [out[-500:]], src))
                continue
            raise ck.ToolError('gate driver failed (%s): %s' % (mode, out[-300:]))
        else:
            st = json.loads(out.strip().splitlines()[-1])
        ck.log('[%s] %s: %d runs in %.0fs' % (prop, src, st['runs'], time.time() - t))
        if mode == 'exhaust':
            ev.setdefault('extra_cov', {})['exhaustive_schedules'] = st.get('schedules')
        if prop == 'C03':
            _validate_and_collect(ck, prop, src, trace, scn, work, ev, violations, known, knownhits, 'TraceRc.tla', 'TraceRc.cfg', runs=st['runs'])
        else:
            _validate_and_collect(ck, prop, src, trace, scn, work, ev, violations, known, knownhits, runs=st['runs'])
        if mode != 'stress':
            _proto_drift(ck, prop, src, trace, work, ev)
        for f in (trace, scn):
            if os.path.exists(f): os.remove(f)
