#!/usr/bin/env python3
"""Reads the atomic orderings of the manual reference count out of /repo/src/waker_list.rs.
Prints JSON {"IncOrd":..,"DecOrd":..,"FenceOrd":..} or exits 2 when the expected shape is not found
(then the check cannot decide and says so; it never guesses)."""
import re, sys, json
src = open(sys.argv[1] if len(sys.argv) > 1 else '/repo/src/waker_list.rs').read()
def body(name):
    m = re.search(r'fn\s+%s\s*\(&self\)[^{]*\{' % name, src)
    if not m: return None
    i = m.end(); depth = 1
    while i < len(src) and depth:
        depth += {'{': 1, '}': -1}.get(src[i], 0); i += 1
    return src[m.end():i]
inc, dec = body('inc_strong'), body('dec_strong')
if inc is None or dec is None:
    print('inc_strong/dec_strong not found', file=sys.stderr); sys.exit(2)
def strip(s): return re.sub(r'//[^\n]*', '', s)
inc, dec = strip(inc), strip(dec)
mi = re.findall(r'strong\s*\.\s*fetch_add\s*\(\s*1\s*,\s*(?:atomic::)?Ordering::(\w+)\s*\)', inc)
md = re.findall(r'strong\s*\.\s*fetch_sub\s*\(\s*1\s*,\s*(?:atomic::)?Ordering::(\w+)\s*\)', dec)
mf = re.findall(r'fence\s*\(\s*(?:atomic::)?Ordering::(\w+)\s*\)', dec)
ml = re.findall(r'strong\s*\.\s*load\s*\(\s*(?:atomic::)?Ordering::(\w+)\s*\)', dec)
if len(mi) != 1 or len(md) != 1 or len(mf) + len(ml) > 1:
    print('unexpected shape: inc=%s dec=%s fence=%s load=%s' % (mi, md, mf, ml), file=sys.stderr); sys.exit(2)
fence = (mf or ml or ['Relaxed'])[0]      # no fence/acquire-load at all = no synchronisation before the free
# the fence must be on the path that frees (after the early return)
if mf and dec.find('fence') < dec.find('return false'):
    print('fence before the early return: shape not understood', file=sys.stderr); sys.exit(2)
print(json.dumps({'IncOrd': mi[0], 'DecOrd': md[0], 'FenceOrd': fence}))
