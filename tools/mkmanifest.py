#!/usr/bin/env python3
"""Regenerates MANIFEST.json from tools/plan.py (claimed properties) - keeps the manifest valid at all times."""
import json, os, sys
ROOT = os.path.dirname(os.path.dirname(os.path.abspath(__file__)))
sys.path.insert(0, os.path.join(ROOT, 'tools'))
import plan
props = [json.loads(l) for l in open(os.path.join(ROOT, 'properties.jsonl'))]
checks, na = [], []
for p in props:
    pid = p['id']
    if pid in plan.PLAN and pid not in getattr(plan, 'UNCLAIMED', {}):
        meta = plan.META.get(pid, {})
        checks.append({
            'property_id': pid,
            'quick_cmd': './check %s --tier quick' % pid,
            'thorough_cmd': './check %s --tier thorough' % pid,
            'evidence_file': '/verif/evidence/%s.json' % pid,
            'replay_cmd_template': './check %s --replay {path}' % pid,
            'engine': 'tlc+harness',
            'level_claimed': {'category': 'model_checking',
                              'text': meta.get('text', 'TLC model-checks the implementation-shaped TLA+ specification composed with the property machine (Abs.tla) exhaustively at small constants; the specification is bound to the code in both directions: TLC-generated behaviours are executed on the real crate and compared with the predicted events, and every recorded execution (generated, random, adversarial) is validated by TLC against Abs.tla, whose violation clauses are attributed to this property.'),
                              'design_ref': meta.get('design_ref', 'DESIGN.md section 7, ' + pid)},
            'level_note': meta.get('note', 'exhaustive only for the small constants listed in the evidence; larger sizes by validated traces of the real crate; dependencies (cordyceps, diatomic-waker, spin) trusted; scripted children are the environment'),
            'technique': meta.get('technique', 'TLA+ spec + TLC model checking + trace validation / TLC-generated scenario replay on the real crate'),
        })
    else:
        na.append({'property_id': pid, 'reason': getattr(plan, 'UNCLAIMED', {}).get(pid, 'pipeline for this property is not built yet in this revision')})
m = {
    'version': 1,
    'setup_cmd': 'cd /verif && ./check setup',
    'hooks': {
        'guard': 'futures_buffered_verif',
        'enable': 'RUSTFLAGS="--cfg futures_buffered_verif" (set in /verif/harness/.cargo/config.toml; the harness has a path dependency on /repo)',
        'baseline_off_cmd': 'cd /repo && cargo test --workspace --no-fail-fast --offline --lib --tests',
        'source_commits': plan.HOOK_COMMITS,
        'add_only': True,
    },
    'engines': [
        {'name': 'tlc', 'path': '/verif/spec', 'serves_properties': [c['property_id'] for c in checks],
         'kind_free_text': 'TLA+ specifications (Abs: property machine; Coll: implementation-shaped collections/merges/adapters/joins; Ordered, RefCount, WakerProtocol) checked by TLC: exhaustive MC, scenario generation, trace validation'},
        {'name': 'fbv', 'path': '/verif/harness', 'serves_properties': [c['property_id'] for c in checks],
         'kind_free_text': 'Rust conformance harness: scripted children, tagged tokens, counting allocator, replay of TLC behaviours, random/adversarial drivers, gate scheduler for real threads; records ndjson traces'},
    ],
    'checks': checks,
    'not_applicable': na,
    'notes': 'Known genuine defects that are recorded rather than repaired are listed in /verif/known_findings.json; repaired ones as fixed entries there.',
}
json.dump(m, open(os.path.join(ROOT, 'MANIFEST.json'), 'w'), indent=1)
# hand-runnable TLC configurations of every model-checking base (tlc -config spec/MC_<name>.cfg spec/MCColl.tla)
import glob
for f in glob.glob(os.path.join(ROOT, 'spec', 'MC_coll_*.cfg')): os.remove(f)
for name, c in plan.MC_BASE.items():
    with open(os.path.join(ROOT, 'spec', 'MC_coll_%s.cfg' % name), 'w') as f:
        f.write('SPECIFICATION Spec\nCONSTANTS\n')
        for k, v in c.items():
            f.write(' %s = %s\n' % (k, json.dumps(v) if isinstance(v, str) else ('TRUE' if v is True else 'FALSE' if v is False else v)))
        f.write('INVARIANTS ' + ' '.join(plan.COLL_INVS) + '\nCHECK_DEADLOCK FALSE\n')
print('claimed', [c['property_id'] for c in checks])
