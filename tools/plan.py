"""Which models, generators and drivers decide which property (data only; `check` interprets it)."""

COLL_INVS = ['NoViolation', 'QueueMatchesFlags', 'FreeListSound', 'RemIsHeld', 'LocSound', 'ObligQueued', 'GroupsSound']

def base(kind, cap0, ninit, nc, budget, maxpolls, maxitems=1, maxwakes=1, front=False, perpetual=False, fix=False, nw=2):
    return {'Kind': kind, 'Cap0': cap0, 'NInit': ninit, 'NC': nc, 'Budget': budget, 'NW': nw, 'MaxPolls': maxpolls,
            'MaxItems': maxitems, 'MaxWakes': maxwakes, 'GenMode': False, 'CursorFix': fix, 'AllowFront': front,
            'Mut': 'none', 'Perpetual': perpetual, 'WaitMul': 1, 'WaitAdd': 2}

# exhaustive model-checking configurations of Coll.tla (small constants; see DESIGN.md section 4)
MC_BASE = {
    'fub':      base('fub', 2, 0, 3, 2, 2, maxwakes=2),
    'fub_b1':   base('fub', 2, 0, 3, 1, 2, maxwakes=2),          # budget 1: "more ready than the budget" with 2 children
    'fub_init': base('fub', 2, 2, 3, 2, 2, maxwakes=2),          # from_iter / join_all initial state
    'fub_c3':   base('fub', 3, 0, 4, 2, 2, maxwakes=1),          # thorough
    'fub_perp': base('fub', 2, 0, 3, 2, 2, maxwakes=1, perpetual=True),   # perpetual self-wakers: starvation lassos
    'fu':       base('fu', 1, 0, 4, 2, 2),                        # groups of capacity 1, 2, 4
    'fu_perp':  base('fu', 1, 0, 3, 2, 2, perpetual=True),
    'fob':      base('fob', 2, 0, 3, 2, 2, front=True),
    'fo':       base('fo', 1, 0, 3, 2, 2, front=True),
    'mb':       base('mb', 2, 2, 3, 2, 3),
    'mb_perp':  base('mb', 2, 2, 2, 2, 2, maxitems=2, perpetual=True),
    'mu':       base('mu', 1, 0, 3, 2, 3),
    'mu_perp':  base('mu', 1, 0, 3, 2, 2, maxitems=2, perpetual=True),
}

def gen_job(kind, basecfg, every_quick, tails=('drain', 'quiet', 'drop'), consts=None):
    c = {'Budget': 61}
    c.update(consts or {})
    return {'name': 'cover_' + kind, 'base': basecfg, 'consts': c, 'mode': 'cover', 'every_quick': every_quick,
            'every_thorough': 1, 'tails': list(tails)}

GEN = {
    'fub': gen_job('fub', 'fub', 4),
    'fub_init': {**gen_job('fub', 'fub_init', 4), 'name': 'cover_fub_init'},
    'fu': gen_job('fu', 'fu', 40, consts={'NC': 3}),
    'fob': gen_job('fob', 'fob', 20),
    'fo': gen_job('fo', 'fo', 40),
    'mb': gen_job('mb', 'mb', 30),
    'mu': gen_job('mu', 'mu', 30),
}

def rnd(kind, size='small', profile='mix', nq=300, nt=3000, **kw):
    d = {'kind': kind, 'size': size, 'profile': profile, 'n_quick': nq, 'n_thorough': nt}
    d.update(kw)
    return d

def mc(name, **kw):
    d = {'name': name, 'base': name}
    d.update(kw)
    return d

COLL_KINDS = ['fub', 'fu', 'fob', 'fo']
MERGE_KINDS = ['mb', 'mu']

DEFAULT_ASSUMPTIONS = [
    'TLC explores the listed small constants exhaustively; larger sizes are reached only by validated traces of the real crate',
    'the harness observes the crate through its public API plus the cfg(futures_buffered_verif) hooks; scripted children are the environment',
    'cordyceps, diatomic-waker and spin are pinned dependencies: their sequentially consistent behaviour is modelled, their internals trusted',
]
CRASH_IS_VIOLATION = {'C03', 'C07'}

def coll_suite(kinds, nq=300, nt=3000, real_q=40, real_t=400):
    out = []
    for k in kinds:
        out.append(rnd(k, 'small', 'mix', nq, nt))
        out.append(rnd(k, 'real', 'mix', real_q, real_t))
    return out

PLAN = {
    'C02': {
        'mc': [mc('fub'), mc('fub_b1'), mc('fub_init'), mc('fob'), mc('fo'), mc('fu'), mc('fub_c3', tier='thorough')],
        'gen': [GEN['fub'], GEN['fub_init'], GEN['fu'], GEN['fob'], GEN['fo']],
        'random': coll_suite(COLL_KINDS),
    },
}

HOOK_COMMITS = ['f17c35b', '748a996', 'e526430', '6de2393']
META = {}
UNCLAIMED = {}
