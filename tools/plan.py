"""Which models, generators and drivers decide which property (data only; `check` interprets it)."""

COLL_INVS = ['NoViolation', 'QueueMatchesFlags', 'FreeListSound', 'RemIsHeld', 'LocSound', 'ObligQueued', 'GroupsSound']

def base(kind, cap0, ninit, nc, budget, maxpolls, maxitems=1, maxwakes=1, front=False, perpetual=False, fix=False, nw=2):
    return {'Kind': kind, 'Cap0': cap0, 'NInit': ninit, 'NC': nc, 'Budget': budget, 'NW': nw, 'MaxPolls': maxpolls,
            'MaxItems': maxitems, 'MaxWakes': maxwakes, 'GenMode': False, 'CursorFix': True, 'AllowFront': front,
            'Mut': 'none', 'Perpetual': perpetual, 'WaitMul': 1, 'WaitAdd': 2}

# exhaustive model-checking configurations of Coll.tla (small constants; see DESIGN.md section 4)
MC_BASE = {
    'fub':      base('fub', 2, 0, 3, 2, 2, maxwakes=2),
    'fub_b1':   base('fub', 2, 0, 3, 1, 2, maxwakes=2),          # budget 1: "more ready than the budget" with 2 children
    'fub_init': base('fub', 2, 2, 3, 2, 2, maxwakes=2),          # from_iter initial state
    'fub_c3':   base('fub', 3, 0, 4, 2, 2, maxwakes=1),          # thorough
    'fub_perp': base('fub', 2, 0, 3, 2, 2, maxwakes=1, perpetual=True),   # perpetual self-wakers: starvation lassos
    'fu':       base('fu', 1, 0, 3, 2, 2),                        # groups of capacity 1, 2
    'fu4':      base('fu', 1, 0, 4, 2, 2),                        # groups of capacity 1, 2, 4 (thorough)
    'fu_perp':  base('fu', 1, 0, 3, 2, 2, perpetual=True),
    'fob':      base('fob', 2, 0, 3, 2, 2, front=True),
    'fo':       base('fo', 1, 0, 3, 2, 2, front=True),
    'mb':       base('mb', 2, 2, 3, 2, 3),
    'mb_perp':  base('mb', 2, 2, 2, 2, 2, maxitems=2, perpetual=True),
    'mu':       base('mu', 1, 0, 3, 2, 2),
    'mu3':      base('mu', 1, 0, 3, 2, 3),                        # thorough (4 M states)
    'mu_perp':  base('mu', 1, 0, 3, 2, 2, maxitems=2, perpetual=True),
    'bu':       base('bu', 2, 0, 3, 2, 2),
    'bo':       base('bo', 2, 0, 3, 2, 2),
    'tbu':      base('tbu', 2, 0, 3, 2, 2),
    'tbo':      base('tbo', 2, 0, 3, 2, 2),
    'fe':       base('fe', 2, 0, 3, 2, 2),
    'ja':       base('ja', 3, 3, 3, 2, 2),
    'tja':      base('tja', 3, 3, 3, 2, 2),
}

def gen_job(name, basecfg, target_quick=1200, tails=('drain', 'quiet', 'drop'), consts=None):
    c = {'Budget': 61}
    c.update(consts or {})
    return {'name': 'cover_' + name, 'base': basecfg, 'consts': c, 'mode': 'cover', 'target_quick': target_quick,
            'target_thorough': 0, 'tails': list(tails)}

# state-cover generators: one TLC behaviour per distinct poll-boundary state of the small model, executed on the real
# crate (quick: a seeded sample of about target_quick behaviours x tails; thorough: all of them)
GEN = {
    'fub': gen_job('fub', 'fub', 2500),
    'fub_init': gen_job('fub_init', 'fub_init', 1500),
    'fu': gen_job('fu', 'fu', 1500),
    'fob': gen_job('fob', 'fob', 1500),
    'fo': gen_job('fo', 'fo', 1500, consts={'MaxWakes': 0}),
    'mb': gen_job('mb', 'mb', 1500, consts={'MaxPolls': 2}),
    'mu': gen_job('mu', 'mu', 1500),
    'bu': gen_job('bu', 'bu', 1500),
    'bo': gen_job('bo', 'bo', 1500),
    'tbu': gen_job('tbu', 'tbu', 1200, consts={'MaxPolls': 1}),
    'tbo': gen_job('tbo', 'tbo', 1200, consts={'MaxPolls': 1}),
    'fe': gen_job('fe', 'fe', 1500),
    'ja': gen_job('ja', 'ja', 1500, tails=('drain', 'repoll', 'drop')),
    'tja': gen_job('tja', 'tja', 1500, tails=('drain', 'repoll', 'drop')),
}

def rnd(kind, size='small', profile='mix', nq=300, nt=3000, **kw):
    d = {'kind': kind, 'size': size, 'profile': profile, 'n_quick': nq, 'n_thorough': nt}
    d.update(kw)
    return d

def mc(name, **kw):
    d = {'name': name, 'base': name}
    d.update(kw)
    return d

COLL_KINDS = ['fub', 'fu', 'fob', 'fo']
MERGE_KINDS = ['mb', 'mu']
ADAPT_KINDS = ['bu', 'bo', 'tbu', 'tbo', 'fe']
JOIN_KINDS = ['ja', 'tja']
ALL_KINDS = COLL_KINDS + MERGE_KINDS + ADAPT_KINDS + JOIN_KINDS

DEFAULT_ASSUMPTIONS = [
    'TLC explores the listed small constants exhaustively; larger sizes are reached only by validated traces of the real crate',
    'the harness observes the crate through its public API plus the cfg(futures_buffered_verif) hooks; scripted children are the environment',
    'cordyceps, diatomic-waker and spin are pinned dependencies: their sequentially consistent behaviour is modelled, their internals trusted',
]
CRASH_IS_VIOLATION = {'C03', 'C07'}

def suite(kinds, nq=300, nt=3000, real_q=30, real_t=300, profiles=()):
    out = []
    for k in kinds:
        out.append(rnd(k, 'small', 'mix', nq, nt))
        if real_q: out.append(rnd(k, 'real', 'mix', real_q, real_t))
        for pr in profiles:
            if k in COLL_KINDS + MERGE_KINDS:      # the adversarial profiles drive push / wake histories of collections
                out.append(rnd(k, 'real', pr, max(real_q // 2, 8), real_t))
    return out

def live(name, **consts):
    c = {'Perpetual': True, 'NW': 1, 'MaxWakes': 1, 'WaitMul': 3, 'WaitAdd': 16}
    c.update(consts)
    return {'name': 'live_' + name, 'base': name, 'consts': c, 'spec': 'FairSpec', 'invariants': False, 'lines': ['PROPERTY Progress']}

def mcs(*names, thorough=()):
    return [mc(n) for n in names] + [mc(n, tier='thorough') for n in thorough]
def gens(*names):
    return [GEN[n] for n in names]

PLAN = {
    'C01': {'extra': ['protocol_engine', 'threads_engine'],
            'mc': mcs('fub', 'fub_b1', 'fu', 'mb', 'mu', 'bu', 'ja', thorough=('fub_c3', 'fu4')) + [live('fub'), live('mu', NC=2)],
            'gen': gens('fub', 'fu', 'mb', 'mu', 'bu'),
            'random': suite(COLL_KINDS + MERGE_KINDS, 200, 2000, 20, 200, profiles=('budget',)) + suite(ADAPT_KINDS + JOIN_KINDS, 150, 1500, 10, 100)},
    'C02': {'mc': mcs('fub', 'fub_b1', 'fub_init', 'fob', 'fo', 'fu', thorough=('fub_c3', 'fu4')),
            'gen': gens('fub', 'fub_init', 'fu', 'fob', 'fo'),
            'random': suite(COLL_KINDS)},
    'C03': {'mc': [], 'gen': [], 'random': [], 'extra': ['refcount_engine'], 'trace_spec': ('TraceRc.tla', 'TraceRc.cfg')},
    'C04': {'extra': ['ordered_engine'],
            'mc': mcs('fob', 'fo', 'bo', 'tbo', 'ja', 'tja'),
            'gen': gens('fob', 'fo', 'bo', 'tbo', 'ja'),
            'random': suite(['fob', 'fo'], 400, 4000, 40, 400) + suite(['bo', 'tbo', 'ja', 'tja'], 200, 2000, 15, 150)},
    'C05': {'mc': mcs('fub', 'fub_init', 'mb', 'mu', 'ja'),
            'gen': gens('fub', 'mb', 'mu', 'ja'),
            'random': suite(['fub', 'fu', 'mb', 'mu', 'ja', 'bu'], 250, 2500, 20, 200, profiles=('stale',))},
    'C06': {'mc': mcs('fub', 'fob', 'mb', 'bo', 'ja', 'tja'),
            'gen': gens('fub', 'fob', 'mb', 'bo', 'ja', 'tja'),
            'random': suite(ALL_KINDS, 200, 2000, 10, 100) + [rnd(k, 'small', 'panic', 60, 600) for k in ALL_KINDS] + [rnd(k, 'small', 'dpanic', 60, 600) for k in ALL_KINDS]},
    'C07': {'mc': mcs('ja', 'tja'),
            'gen': gens('ja', 'tja'),
            'random': suite(JOIN_KINDS, 600, 6000, 60, 600) + [rnd(k, 'small', 'panic', 200, 2000) for k in JOIN_KINDS] + [rnd(k, 'small', 'dpanic', 200, 2000) for k in JOIN_KINDS]},
    'C08': {'mc': mcs('fub', 'fu', 'mu'),
            'gen': gens('fub', 'fu', 'mu', 'bu', 'tja'),
            'random': suite(COLL_KINDS + MERGE_KINDS, 250, 2500, 30, 300, profiles=('oscillate',)) + suite(ADAPT_KINDS + JOIN_KINDS, 100, 1000, 10, 100)},
    'C09': {'mc': mcs('bu', 'bo', 'tbu', 'tbo', 'fe'),
            'gen': gens('bu', 'bo', 'tbu', 'tbo', 'fe'),
            'random': suite(ADAPT_KINDS, 400, 4000, 40, 400)},
    'C10': {'mc': mcs('bu', 'bo', 'tbu', 'tbo', 'fe'),
            'gen': gens('bu', 'bo', 'tbu', 'tbo', 'fe'),
            'random': suite(ADAPT_KINDS, 400, 4000, 40, 400) + [rnd('fe', 'small', 'limit0', 6, 30)]},
    'C11': {'mc': mcs('mb', 'mu'),
            'gen': gens('mb', 'mu'),
            'random': suite(MERGE_KINDS, 500, 5000, 60, 600, profiles=('budget',))},
    'C12': {'mc': mcs('fub', 'fub_b1', 'fu', 'mb', 'mu'),
            'gen': gens('fub', 'fu', 'mb'),
            'random': suite(COLL_KINDS + MERGE_KINDS, 250, 2500, 20, 200, profiles=('stale',))
                      + [rnd(k, 'small', 'panic', 80, 800) for k in COLL_KINDS + MERGE_KINDS]},
    'C13': {'mc': mcs('fub_perp', 'mb_perp', 'fu_perp', 'mu_perp') + [live('fub'), live('mb', MaxPolls=2), live('mu', NC=2), live('fu')],
            'gen': gens('fub', 'mb'),
            'random': suite(COLL_KINDS + MERGE_KINDS, 150, 1500, 10, 100, profiles=('budget',))
                      + [rnd(k, 'small', 'starve', 60, 600) for k in COLL_KINDS + MERGE_KINDS]
                      + [rnd(k, 'real', 'starve', 17, 170) for k in COLL_KINDS + MERGE_KINDS]
                      + [rnd(k, 'small', 'churn', 30, 300) for k in ['fu', 'fo']]
                      + [rnd(k, 'real', 'manygroups', 8, 80) for k in ('fu', 'fo', 'mu')]},
    'C14': {'mc': mcs('fub', 'fub_b1', 'fu', 'mb', 'bu'),
            'gen': [dict(GEN[n], tails=['quiet']) for n in ('fub', 'fu', 'mb', 'bu')],
            'random': suite(COLL_KINDS + MERGE_KINDS + ['bu', 'fe'], 200, 2000, 15, 150, profiles=('stale',))
                      + [rnd('fub', 'real', 'stale_big', 4, 20), rnd('fu', 'real', 'stale_big', 2, 10)]
                      + [rnd(k, 'real', 'manygroups', 10, 100) for k in ('fu', 'fo', 'mu')]},
    'C15': {'mc': mcs('fub', 'fub_init', 'fob', 'fo', 'fu', 'mb'),
            'gen': gens('fub', 'fub_init', 'fob', 'fu'),
            'random': suite(COLL_KINDS + ['mb', 'mu'], 400, 4000, 40, 400)},
    'C16': {'mc': mcs('bo', 'tbo'),
            'gen': gens('bo', 'tbo'),
            'random': suite(['bo', 'tbo'], 500, 5000, 50, 500, profiles=('headofline',)) + [rnd(k, 'small', 'headofline', 100, 1000) for k in ('bo', 'tbo')]},
    'C17': {'mc': mcs('bu', 'bo', 'tbu', 'tbo', 'fub', 'fo'),
            'gen': gens('bu', 'bo', 'tbu', 'tbo'),
            'random': suite(['bu', 'bo', 'tbu', 'tbo'], 400, 4000, 40, 400) + suite(COLL_KINDS + MERGE_KINDS, 100, 1000, 10, 100)},
    'C18': {'mc': mcs('fub', 'fu', 'mu', 'fo'),
            'gen': gens('fub', 'bu'),
            'random': suite(ALL_KINDS, 100, 1000, 10, 100)
                      + [rnd(k, 'small', 'oscillate', 60, 600) for k in COLL_KINDS + MERGE_KINDS]
                      + [rnd(k, 'real', 'oscillate', 20, 200) for k in COLL_KINDS + MERGE_KINDS]},
}

HOOK_COMMITS = ['f17c35b', '748a996', 'e526430', '6de2393']
META = {}
UNCLAIMED = {}
