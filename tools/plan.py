"""Which models, generators and drivers decide which property (data only; `check` interprets it)."""

COLL_INVS = ['NoViolation', 'QueueMatchesFlags', 'FreeListSound', 'RemIsHeld', 'LocSound', 'ObligQueued', 'GroupsSound']

def base(kind, cap0, ninit, nc, budget, maxpolls, maxitems=1, maxwakes=1, front=False, perpetual=False, fix=False, nw=2):
    return {'Kind': kind, 'Cap0': cap0, 'NInit': ninit, 'NC': nc, 'Budget': budget, 'NW': nw, 'MaxPolls': maxpolls,
            'MaxItems': maxitems, 'MaxWakes': maxwakes, 'GenMode': False, 'CursorFix': True, 'AllowFront': front,
            'Mut': 'none', 'Perpetual': perpetual, 'WaitMul': 1, 'WaitAdd': 2, 'Panics': 0, 'StaleCap': 0}

# exhaustive model-checking configurations of Coll.tla (small constants; see DESIGN.md section 4)
MC_BASE = {
    'fub':      base('fub', 2, 0, 3, 2, 2, maxwakes=2),
    'fub_b1':   base('fub', 2, 0, 3, 1, 2, maxwakes=2),          # budget 1: "more ready than the budget" with 2 children
    'fub_init': base('fub', 2, 2, 3, 2, 2, maxwakes=2),          # from_iter initial state
    'fub_c3':   base('fub', 3, 0, 4, 2, 2, maxwakes=1),          # thorough
    'fub_perp': base('fub', 2, 0, 3, 2, 2, maxwakes=1, perpetual=True),   # perpetual self-wakers: starvation lassos
    'fu':       base('fu', 1, 0, 3, 2, 2),                        # groups of capacity 1, 2
    'fu4':      base('fu', 1, 0, 4, 2, 2),                        # groups of capacity 1, 2, 4 (thorough)
    'fu_perp':  base('fu', 1, 0, 3, 2, 2, perpetual=True),
    'fob':      base('fob', 2, 0, 3, 2, 2, front=True),
    'fo':       base('fo', 1, 0, 3, 2, 2, front=True),
    'mb':       base('mb', 2, 2, 3, 2, 3),
    'mb_perp':  base('mb', 2, 2, 2, 2, 2, maxitems=2, perpetual=True),
    'mu':       base('mu', 1, 0, 3, 2, 2),
    'mu3':      base('mu', 1, 0, 3, 2, 3),                        # thorough (4 M states)
    'mu_perp':  base('mu', 1, 0, 2, 2, 2, maxitems=1, perpetual=True),   # 40 k states; always-ready sources in groups of 1 and 2
    'mu_perp3': base('mu', 1, 0, 3, 2, 2, maxitems=1, perpetual=True),   # thorough: 1.7 M states
    'bu':       base('bu', 2, 0, 3, 2, 2),
    'bo':       base('bo', 2, 0, 3, 2, 2),
    'tbu':      base('tbu', 2, 0, 3, 2, 2),
    'tbo':      base('tbo', 2, 0, 3, 2, 2),
    'fe':       base('fe', 2, 0, 3, 2, 2),
    'ja':       base('ja', 3, 3, 3, 2, 2),
    'tja':      base('tja', 3, 3, 3, 2, 2),
}
# deeper configurations, thorough tier only (2-10 min each at 8 workers)
MC_BASE.update({
    'bu4':    base('bu', 2, 0, 4, 2, 2),          # 0.5 M states
    'bo4':    base('bo', 2, 0, 4, 2, 2),
    'tbu4':   base('tbu', 2, 0, 4, 2, 2),         # 6.5 M
    'tbo4':   base('tbo', 2, 0, 4, 2, 2),         # 4.5 M
    'fe4':    base('fe', 2, 0, 4, 2, 2),
    'bu5c3':  base('bu', 3, 0, 5, 2, 2),          # 12.9 M
    'fob4c3': base('fob', 3, 0, 4, 2, 2, front=True),   # 16.3 M
    'mb3':    base('mb', 3, 3, 4, 2, 3),          # 31.8 M
    'ja4':    base('ja', 4, 4, 4, 2, 2),
    'tja4':   base('tja', 4, 4, 4, 2, 2),
    'ja5':    base('ja', 5, 5, 5, 2, 2),          # 6.8 M
})
# the same with one child poll that panics (the panic unwinds through the collection's poll; the collection is used on)
for _k in ('fub', 'fu', 'fob', 'fo', 'mb', 'mu', 'bu', 'bo', 'tbu', 'tbo', 'fe', 'ja', 'tja'):
    MC_BASE[_k + '_panic'] = dict(MC_BASE[_k], Panics=1)

def gen_job(name, basecfg, target_quick=1200, tails=('drain', 'quiet', 'drop'), consts=None):
    c = {'Budget': 61}
    c.update(consts or {})
    return {'name': 'cover_' + name, 'base': basecfg, 'consts': c, 'mode': 'cover', 'target_quick': target_quick,
            'target_thorough': 0, 'tails': list(tails)}

# state-cover generators: one TLC behaviour per distinct poll-boundary state of the small model, executed on the real
# crate (quick: a seeded sample of about target_quick behaviours x tails; thorough: all of them)
GEN = {
    'fub': gen_job('fub', 'fub', 2500),
    'fub_init': gen_job('fub_init', 'fub_init', 1500),
    'fu': gen_job('fu', 'fu', 1500),
    'fob': gen_job('fob', 'fob', 1500),
    'fo': gen_job('fo', 'fo', 1500, consts={'MaxWakes': 0}),
    'mb': gen_job('mb', 'mb', 1500, consts={'MaxPolls': 2}),
    'mu': gen_job('mu', 'mu', 1500),
    'bu': gen_job('bu', 'bu', 1500),
    'bo': gen_job('bo', 'bo', 1500),
    'tbu': gen_job('tbu', 'tbu', 1200, consts={'MaxPolls': 1}),
    'tbo': gen_job('tbo', 'tbo', 1200, consts={'MaxPolls': 1}),
    'fe': gen_job('fe', 'fe', 1500),
    'ja': gen_job('ja', 'ja', 1500, tails=('drain', 'repoll', 'drop')),
    'tja': gen_job('tja', 'tja', 1500, tails=('drain', 'repoll', 'drop')),
}
for _k in ('fub', 'fu', 'fob', 'mb', 'mu', 'bu', 'tbo', 'fe', 'ja', 'tja'):
    GEN[_k + '_panic'] = dict(GEN[_k], name='cover_%s_panic' % _k, base=_k + '_panic', target_quick=600)

def rnd(kind, size='small', profile='mix', nq=300, nt=3000, **kw):
    d = {'kind': kind, 'size': size, 'profile': profile, 'n_quick': nq, 'n_thorough': nt}
    d.update(kw)
    return d

def mc(name, **kw):
    d = {'name': name, 'base': name}
    d.update(kw)
    return d

COLL_KINDS = ['fub', 'fu', 'fob', 'fo']
MERGE_KINDS = ['mb', 'mu']
ADAPT_KINDS = ['bu', 'bo', 'tbu', 'tbo', 'fe']
JOIN_KINDS = ['ja', 'tja']
ALL_KINDS = COLL_KINDS + MERGE_KINDS + ADAPT_KINDS + JOIN_KINDS

DEFAULT_ASSUMPTIONS = [
    'TLC explores the listed small constants exhaustively; larger sizes are reached only by validated traces of the real crate',
    'the harness observes the crate through its public API plus the cfg(futures_buffered_verif) hooks; scripted children are the environment',
    'cordyceps, diatomic-waker and spin are pinned dependencies: their sequentially consistent behaviour is modelled, their internals trusted',
]
CRASH_IS_VIOLATION = {'C03', 'C07'}

def suite(kinds, nq=300, nt=3000, real_q=30, real_t=300, profiles=()):
    out = []
    for k in kinds:
        out.append(rnd(k, 'small', 'mix', nq, nt))
        if real_q: out.append(rnd(k, 'real', 'mix', real_q, real_t))
        for pr in profiles:
            if k in COLL_KINDS + MERGE_KINDS:      # the adversarial profiles drive push / wake histories of collections
                out.append(rnd(k, 'real', pr, max(real_q // 2, 8), real_t))
    return out

def live(name, **consts):
    c = {'Perpetual': True, 'NW': 1, 'MaxWakes': 1, 'WaitMul': 3, 'WaitAdd': 16}
    c.update(consts)
    return {'name': 'live_' + name, 'base': name, 'consts': c, 'spec': 'FairSpec', 'invariants': False, 'lines': ['PROPERTY Progress']}

def mcs(*names, thorough=()):
    return [mc(n) for n in names] + [mc(n, tier='thorough', workers=14, timeout=5400, xmx='20g') for n in thorough]
def gens(*names):
    return [GEN[n] for n in names]

PLAN = {
    'C01': {'extra': ['protocol_engine', 'threads_engine'],
            'mc': mcs('fub', 'fub_b1', 'fu', 'mb', 'mu', 'bu', 'ja', thorough=('fub_c3', 'fu4', 'mu3', 'mb3', 'bu4')) + [live('fub'), live('mu', NC=2)],
            'gen': gens('fub', 'fu', 'mb', 'mu', 'bu'),
            'random': suite(COLL_KINDS + MERGE_KINDS, 200, 2000, 20, 200, profiles=('budget',)) + suite(ADAPT_KINDS + JOIN_KINDS, 150, 1500, 10, 100)
                      + [rnd(k, 'real', 'burst', 9, 90) for k in ('ja', 'tja', 'mb', 'mu')]},
    'C02': {'mc': mcs('fub', 'fub_b1', 'fub_init', 'fob', 'fo', 'fu', thorough=('fub_c3', 'fu4', 'fob4c3')),
            'gen': gens('fub', 'fub_init', 'fu', 'fob', 'fo'),
            'random': suite(COLL_KINDS, profiles=('stale',)) + [rnd('fub', 'real', 'stale_big', 3, 20), rnd('fu', 'real', 'stale_big', 2, 10)]
                      + [rnd(k, 'real', 'stale_empty', 4, 40) for k in COLL_KINDS]},
    'C03': {'mc': [], 'gen': [], 'random': [], 'extra': ['refcount_engine'], 'trace_spec': ('TraceRc.tla', 'TraceRc.cfg')},
    'C04': {'extra': ['ordered_engine'],
            'mc': mcs('fob', 'fo', 'bo', 'tbo', 'ja', 'tja', thorough=('fob4c3', 'bo4', 'tbo4', 'ja4', 'tja4')),
            'gen': gens('fob', 'fo', 'bo', 'tbo', 'ja'),
            'random': suite(['fob', 'fo'], 400, 4000, 40, 400) + suite(['bo', 'tbo', 'ja', 'tja'], 200, 2000, 15, 150)
                      + [rnd(k, sz, 'frontchurn', n, 10 * n) for k in ('fo', 'fob') for sz, n in (('small', 60), ('real', 8))]},
    'C05': {'mc': mcs('fub', 'fub_init', 'mb', 'mu', 'ja', 'tja', 'fub_panic', thorough=('mb_panic', 'mu_panic', 'fub_c3', 'mu3', 'ja4', 'tja4')),
            'gen': gens('fub', 'mb', 'mu', 'ja', 'tja', 'fub_panic'),
            'random': suite(['fub', 'fu', 'mb', 'mu', 'ja', 'tja', 'bu', 'tbo', 'fe'], 250, 2500, 20, 200, profiles=('stale',))},
    'C06': {'mc': mcs('fub', 'fob', 'mb', 'bo', 'ja', 'tja', 'fub_panic', 'bo_panic', 'ja_panic', 'tja_panic',
                       thorough=('fub_c3', 'ja4', 'tja4', 'fu_panic', 'fob_panic', 'fo_panic', 'mb_panic', 'mu_panic', 'bu_panic', 'tbu_panic', 'tbo_panic', 'fe_panic')),
            'gen': gens('fub', 'fob', 'mb', 'bo', 'ja', 'tja', 'fub_panic', 'fu_panic', 'fe_panic', 'tja_panic'),
            'random': suite(ALL_KINDS, 200, 2000, 10, 100) + [rnd(k, 'small', 'panic', 60, 600) for k in ALL_KINDS] + [rnd(k, 'small', 'dpanic', 60, 600) for k in ALL_KINDS]
                      + [rnd(k, 'real', 'burst', 40, 400) for k in ('ja', 'tja')] + [rnd(k, 'real', 'burst', 12, 120) for k in ('mb', 'mu')]},
    'C07': {'mc': mcs('ja', 'tja', 'ja_panic', 'tja_panic', thorough=('ja4', 'tja4', 'ja5')),
            'gen': gens('ja', 'tja', 'ja_panic', 'tja_panic'),
            'random': suite(JOIN_KINDS, 600, 6000, 60, 600) + [rnd(k, 'small', 'panic', 200, 2000) for k in JOIN_KINDS] + [rnd(k, 'small', 'dpanic', 200, 2000) for k in JOIN_KINDS]
                      + [rnd(k, 'real', 'burst', 12, 120) for k in JOIN_KINDS]},
    'C08': {'mc': mcs('fub', 'fu', 'mu', thorough=('fu4', 'mu3')),
            'gen': gens('fub', 'fu', 'mu', 'bu', 'tja'),
            'random': suite(COLL_KINDS + MERGE_KINDS, 250, 2500, 30, 300) + [rnd(k, 'real', 'oscillate', 5, 150) for k in COLL_KINDS + MERGE_KINDS]
                      + suite(ADAPT_KINDS + JOIN_KINDS, 100, 1000, 10, 100)},
    'C09': {'mc': mcs('bu', 'bo', 'tbu', 'tbo', 'fe', thorough=('bu4', 'bo4', 'tbu4', 'tbo4', 'fe4', 'bu5c3')),
            'gen': gens('bu', 'bo', 'tbu', 'tbo', 'fe'),
            'random': suite(ADAPT_KINDS, 400, 4000, 40, 400) + [rnd(k, 'real', 'bigcap', 1, 4) for k in ADAPT_KINDS]
                      + [rnd(k, 'real', 'adbudget', 6, 60) for k in ADAPT_KINDS]},
    'C10': {'mc': mcs('bu', 'bo', 'tbu', 'tbo', 'fe', thorough=('bu4', 'bo4', 'tbu4', 'tbo4', 'fe4', 'bu5c3')),
            'gen': gens('bu', 'bo', 'tbu', 'tbo', 'fe'),
            'random': suite(ADAPT_KINDS, 400, 4000, 40, 400) + [rnd('fe', 'small', 'limit0', 6, 30)]},
    'C11': {'mc': mcs('mb', 'mu', thorough=('mu3', 'mb3')),
            'gen': gens('mb', 'mu'),
            'random': suite(MERGE_KINDS, 500, 5000, 60, 600, profiles=('budget',)) + [rnd(k, 'real', 'burst', 18, 180) for k in MERGE_KINDS]},
    'C12': {'mc': mcs('fub', 'fub_b1', 'fu', 'mb', 'mu', 'fub_panic', thorough=('fu_panic', 'mb_panic', 'fub_c3', 'fu4', 'mu3')),
            'gen': gens('fub', 'fu', 'mb', 'fub_panic', 'mb_panic'),
            'random': suite(COLL_KINDS + MERGE_KINDS, 250, 2500, 20, 200, profiles=('stale',))
                      + [rnd(k, 'small', 'panic', 80, 800) for k in COLL_KINDS + MERGE_KINDS]
                      + [rnd(k, 'small', 'forget', 150, 1500) for k in COLL_KINDS + MERGE_KINDS + ['bu', 'ja']]},
    'C13': {'mc': mcs('fub_perp', 'mb_perp', 'fu_perp', 'mu_perp', thorough=('mu_perp3',)) + [live('fub'), live('mb', MaxPolls=2), live('mu', NC=2), live('fu')],
            'gen': gens('fub', 'mb'),
            'random': suite(COLL_KINDS + MERGE_KINDS, 150, 1500, 10, 100, profiles=('budget',))
                      + [rnd(k, 'small', 'starve', 60, 600) for k in COLL_KINDS + MERGE_KINDS]
                      + [rnd(k, 'real', 'starve', 17, 170) for k in ('fub', 'mb', 'mu')] + [rnd(k, 'real', 'starve', 4, 170) for k in ('fu', 'fob', 'fo')]
                      + [rnd(k, 'small', 'starve', 40, 400) for k in JOIN_KINDS] + [rnd(k, 'real', 'starve', 6, 60) for k in JOIN_KINDS]
                      + [rnd(k, 'real', 'burst', 9, 90) for k in ('ja', 'tja', 'mb', 'mu')]
                      + suite(ADAPT_KINDS + JOIN_KINDS, 80, 800, 6, 60)
                      + [rnd(k, 'small', 'churn', 30, 300) for k in ['fu', 'fo']]
                      + [rnd(k, 'real', 'manygroups', 8, 80) for k in ('fu', 'fo', 'mu')]},
    'C14': {'mc': mcs('fub', 'fub_b1', 'fu', 'mb', 'bu', thorough=('fub_c3', 'fu4', 'bu4')),
            'gen': [dict(GEN[n], tails=['quiet']) for n in ('fub', 'fu', 'mb', 'bu')],
            'random': suite(COLL_KINDS + MERGE_KINDS + ['bu', 'fe'], 200, 2000, 15, 150, profiles=('stale',))
                      + [rnd('fub', 'real', 'stale_big', 4, 20), rnd('fu', 'real', 'stale_big', 2, 10)]
                      + [rnd(k, 'real', 'manygroups', 10, 100) for k in ('fu', 'fo', 'mu')]
                      + [rnd(k, 'small', 'mix', 120, 1200) for k in ('bo', 'tbu', 'tbo', 'ja', 'tja')]
                      + [rnd(k, 'small', 'zerocap', 20, 200) for k in ('bu', 'bo', 'tbu', 'tbo')]
                      + [rnd(k, 'small', 'forget', 60, 600) for k in COLL_KINDS + MERGE_KINDS]
                      + [rnd(k, 'real', 'burst', 12, 120) for k in MERGE_KINDS]
                      + [rnd(k, 'small', 'orphans', 80, 800) for k in ALL_KINDS] + [rnd(k, 'real', 'orphans', 8, 80) for k in COLL_KINDS + MERGE_KINDS]},
    'C15': {'mc': mcs('fub', 'fub_init', 'fob', 'fo', 'fu', 'mb', thorough=('fub_c3', 'fu4', 'fob4c3')),
            'gen': gens('fub', 'fub_init', 'fob', 'fu'),
            'random': suite(COLL_KINDS + ['mb', 'mu'], 400, 4000, 40, 400)},
    'C16': {'mc': mcs('bo', 'tbo', thorough=('bo4', 'tbo4')),
            'gen': gens('bo', 'tbo'),
            'random': suite(['bo', 'tbo'], 500, 5000, 50, 500, profiles=('headofline',)) + [rnd(k, 'small', 'headofline', 100, 1000) for k in ('bo', 'tbo')]},
    'C17': {'mc': mcs('bu', 'bo', 'tbu', 'tbo', 'fub', 'fo', thorough=('bu4', 'bo4', 'tbu4', 'tbo4')),
            'gen': gens('bu', 'bo', 'tbu', 'tbo'),
            'random': suite(['bu', 'bo', 'tbu', 'tbo'], 400, 4000, 40, 400) + suite(COLL_KINDS + MERGE_KINDS, 100, 1000, 10, 100)
                      + [rnd(k, 'small', 'hugehint', 150, 1500) for k in ('bu', 'bo', 'tbu', 'tbo')]},
    'C18': {'mc': mcs('fub', 'fu', 'mu', 'fo', thorough=('fu4', 'mu3')),
            'gen': gens('fub', 'bu'),
            'random': suite(ALL_KINDS, 100, 1000, 10, 100)
                      + [rnd(k, 'small', 'oscillate', 60, 600) for k in COLL_KINDS + MERGE_KINDS]
                      + [rnd(k, 'real', 'oscillate', 20, 200) for k in COLL_KINDS + MERGE_KINDS]
                      + [rnd(k, sz, 'frontchurn', n, 10 * n) for k in ('fo', 'fob') for sz, n in (('small', 40), ('real', 12))]
                      + [rnd(k, 'real', 'creep', 3, 30) for k in ('fo', 'fu', 'mu')] + [rnd(k, 'small', 'creep', 20, 200) for k in ('fo', 'fu', 'mu')]
                      + [rnd(k, 'real', 'hugepeak', 0, 1, tier='thorough') for k in ('mu', 'fu', 'fo')]},
}

HOOK_COMMITS = ['f17c35b', '748a996', 'e526430', '6de2393']

_BIND = ('The specification is bound to the code in both directions: TLC-generated behaviours (state cover of the small model) are executed on the real crate '
         'and the recorded events compared with the predicted ones; every recorded execution (generated, random, adversarial) is validated by TLC against the '
         'property machine Abs.tla, whose failing clause names this property.')
def _m(text, note=None, tech='TLA+ spec (Coll.tla + Abs.tla) model-checked by TLC; TLC-generated behaviours replayed on the real crate; trace validation of every recorded run'):
    d = {'text': text + ' ' + _BIND, 'technique': tech}
    if note: d['note'] = note
    return d
META = {
 'C01': _m('No lost wake-up: clause CheckLost of Abs.tla (asleep after Pending with an un-polled woken/new child and the latest task waker not invoked) and the structural invariant ObligQueued are invariants of Coll||Abs for all histories of the small bounds (7 kinds, budget 1 and 2, 2 task wakers); WakerProtocol.tla checks NoLostWakeup for all interleavings at atomic-operation grain (Vyukov queue, DiatomicWaker bit tables); a liveness property (Progress under a fair owner) is checked without state constraint. On the code: every schedule with at most 2 (thorough 3) preemptions of seven owner/producer programs is forced onto real threads by a gate scheduler and validated, plus random gate schedules and all sequential drivers.',
            'SC only: reorderings inside cordyceps/diatomic-waker/spin are trusted; the interior of enqueue/dequeue cannot be split on real threads (covered by the atomic-grain model only).',
            'TLA+ specs (Coll, WakerProtocol, Abs) + TLC; gate-scheduled exhaustive thread schedules and replayed TLC behaviours on the real crate; trace validation'),
 'C02': _m('Exactly-once delivery and None iff empty are clauses of Abs.tla (Yield, Finished, drain) checked as invariants of Coll||Abs for the four collections incl. group creation/removal/keep-last/cursor and slot reuse.'),
 'C03': _m('RefCount.tla (owners, free at 1->0, vector-clock happens-before) is model-checked with the atomic orderings EXTRACTED from src/waker_list.rs; the probe events of real executions (allocation, release with layout, every waker-vtable entry with the header it resolves to, old reference counts, task-waker clone/drop) are validated by TLC against AbsRc.tla: accounting, release exactly once by the thread that took the count to zero, nothing touches a released block, nothing leaks, the registered task waker is destroyed only inside register or the release. Real threads: exhaustive preemption-bounded schedules, random gate schedules, free-running stress.',
            'the memory orderings are bound statically (extractor + model), not observed; UB without an observable event (provenance, aliasing) is out of reach of this technique.',
            'TLA+ specs (RefCount, AbsRc) + TLC; probe-trace validation of sequential and gate-scheduled executions'),
 'C04': _m('Ordered.tla models the ordering layer with K-bit wrapping counters and exactly the arithmetic of the code, for ALL 2^K start values (K=4, thorough 5) with a TLC-checked homomorphism to wider counters; its behaviours are replayed on FuturesOrdered/FuturesOrderedBounded seeded (hook) at the 64-bit images of the start values; yield order is a clause of Abs.tla (reference deque), also for the ordered adapters and the joins; besides misordering, the stalled form (the output next in queue order exists but a poll answers Pending/None) is a clause; Extend and push_front/try_push_front after refusals are exercised.'),
 'C05': _m('A finished child is never polled again and is dropped before the poll that saw it finish returns: clauses of Abs.tla (StepCin, StepRet), invariants of Coll||Abs incl. stale wakers on vacated and reused slots; also checked where a join resolves (vec/err) and after a child poll panicked.'),
 'C06': _m('Every child and output is dropped exactly once: clauses of Abs.tla evaluated at every drop event, at the end of the drop of the collection and at the end of the run; the state cover is prefix-closed and replayed with a "drop now" tail, i.e. the collection is dropped after every prefix; children and outputs without drop glue and zero-sized outputs are accounted for by the harness; the upstream stream of an adapter is a tracked object; child polls that panic are part of the model.'),
 'C07': _m('join_all/try_join_all never hand out a value no input produced: clauses StepVec/StepErr of Abs.tla over tagged tokens (a fabricated or uninitialised element is recognised by its tag), invariants of Coll||Abs for all completion orders, failing subsets and re-polls after the first Ready.'),
 'C08': _m('The address of every !Unpin child is logged at each poll and at drop and must never change (clause of Abs.tla), across group growth/removal/rotation, slot reuse and moves of the collection value; the (!Unpin) upstream stream of every adapter is tracked in the same way.'),
 'C09': _m('The concurrency limit is respected and the adapters are work-conserving: clauses of Abs.tla (StepUp, StepRet) and invariants of Coll||Abs with a nondeterministic upstream (items, Pending gaps, errors, end); limits up to 2049 on the code.'),
 'C10': _m('Upstream is consumed once, in order, fused, and the adapters end exactly when done: clauses of Abs.tla; the documented limit 0 of for_each_concurrent is exercised and is a recorded known finding.'),
 'C11': _m('Merge = union of the sources in per-source order, None iff all ended, Pending only while a source is pending: clauses of Abs.tla, invariants of Coll||Abs for MergeBounded/MergeUnbounded incl. sources pushed while running and groups emptied in the middle.'),
 'C12': _m('Children are polled only on notification (per-child clause, sharper than the count form), also for wakers invoked on other threads where the notification is consumed at the flag clear.'),
 'C13': _m('Bounded waiting and bounded work: wait counters and work counters of Abs.tla; Coll.tla with perpetual children makes starvation a reachable lasso and is checked against the tight bound (peak+2) and, as liveness, Progress under a fair owner; on the code always-ready sources / perpetual self-wakers at populations around the group boundaries and the multiples of the per-poll budget.'),
 'C14': _m('No busy-spinning: quiet-phase counter and "task waker only inside a poll or a child-waker call" of Abs.tla; quiet tails (held+3 polls without activity) are appended to the replayed state cover and to random runs. The budget/stale-waker corner is a recorded known finding.'),
 'C15': _m('Capacity and observer contract: the observers are read after every operation and compared by Abs.tla with accepted - yielded; refusal/panic of push; a delivery fault after a refused push counts as a fault of the refusal contract.'),
 'C16': _m('Back-pressure of the ordered adapters (pulled - yielded <= n) is a clause of Abs.tla, invariant of Coll||Abs; head-of-line stall profile on the code.'),
 'C17': _m('size_hint is compared after every operation with the number of items the stream will still yield, which the environment knows (scripts), for honest upstream hints exact / lower-only / none / loose / more than usize::MAX items, and honest hints of merged sources; a stream that ends although an earlier lower bound promised more items is a fault too.'),
 'C18': _m('A counting global allocator attributes allocations to "inside the crate"; zero after construction for the bounded kinds, adapters and joins, logarithmic in the peak for the unbounded kinds (clauses of Abs.tla), under long fill/drain/refill oscillations with waker clone/drop storms, gated rounds drained exactly to empty, creeping peaks, push_front churn with a parked backlog and (thorough) peaks above 2000.'),
}
UNCLAIMED = {}
