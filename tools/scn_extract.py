#!/usr/bin/env python3
"""Extract predicted traces printed by TLC (<<"SCN", "<json>">> lines) into one JSON array per line.
usage: scn_extract.py <tlc.out> <pred.jsonl> [--every K --offset O] [--min-events N]"""
import sys, json, re
def main():
    src, dst = sys.argv[1], sys.argv[2]
    every, off, minev, target = 1, 0, 0, 0
    a = sys.argv[3:]
    while a:
        if a[0] == '--every': every = int(a[1]); a = a[2:]
        elif a[0] == '--offset': off = int(a[1]); a = a[2:]
        elif a[0] == '--min-events': minev = int(a[1]); a = a[2:]
        elif a[0] == '--target': target = int(a[1]); a = a[2:]
        else: raise SystemExit('bad arg ' + a[0])
    if target:
        total = sum(1 for line in open(src, errors='replace') if line.startswith('<<"SCN", "'))
        every = max(1, total // target)
    n = kept = bad = 0
    buf = None
    with open(src, errors='replace') as f, open(dst, 'w') as out:
        for line in f:
            if line.startswith('<<"SCN", "'):
                buf = line
            elif buf is not None:
                buf += line
            else:
                continue
            if buf.rstrip().endswith('">>'):
                body = buf.rstrip()[len('<<"SCN", '):-2]
                buf = None
                try:
                    evs = json.loads(json.loads(body.replace('\n', '')))
                except Exception:
                    bad += 1
                    continue
                n += 1
                if len(evs) < minev: continue
                if (n + off) % every: continue
                out.write(json.dumps(evs, separators=(',', ':')) + '\n')
                kept += 1
    print(json.dumps({'scenarios': n, 'kept': kept, 'unparsable': bad}))
main()
