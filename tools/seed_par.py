#!/usr/bin/env python3
"""Runs the registered quick check of the broken property against seeded changes, N at a time, each in its own sandbox:
a copy of /verif (tracked files + the built harness) next to a scratch worktree of /repo with the change applied; the copy's
harness depends on that worktree instead of /repo.  /repo and /verif themselves are not touched (except seeded/<id>/meta.json).
usage: seed_par.py [-j N] [ID ...]"""
import os, sys, json, subprocess, time, glob, re, shutil
from concurrent.futures import ThreadPoolExecutor
ROOT = os.path.dirname(os.path.dirname(os.path.abspath(__file__)))
args = sys.argv[1:]
J = 4
if args and args[0] == '-j': J = int(args[1]); args = args[2:]
ids = args or sorted(os.path.basename(d) for d in glob.glob(os.path.join(ROOT, 'seeded', 'C*')))
BASE = os.environ.get('SEEDPAR_BASE', '/tmp/seedpar')
def sh(cmd, **kw): return subprocess.run(cmd, shell=True, text=True, capture_output=True, **kw)
def one(slot_id):
    slot, i = slot_id
    d = os.path.join(ROOT, 'seeded', i)
    meta = json.load(open(os.path.join(d, 'meta.json')))
    prop = meta['breaks_property']
    sb = '%s/s%d' % (BASE, slot); repo = sb + '/repo'; ver = sb + '/verif'
    sh('git -C /repo worktree remove --force %s' % repo); shutil.rmtree(sb, ignore_errors=True); os.makedirs(sb)
    sh('git -C /repo worktree add --detach %s HEAD' % repo)
    r = sh('git -C %s apply %s/patch.diff' % (repo, d))
    if r.returncode != 0:
        sh('git -C /repo worktree remove --force %s' % repo)
        return i, prop, None, 'PATCH DOES NOT APPLY ' + r.stderr[:200]
    sh('mkdir -p %s && cd %s && git ls-files | grep -v "^seeded/\\|^evidence/\\|^findings/" | rsync -a --files-from=- . %s/' % (ver, ROOT, ver))
    os.makedirs(ver + '/evidence', exist_ok=True)
    sh("sed -i 's#path = \"/repo\"#path = \"%s\"#' %s/harness/Cargo.toml" % (repo, ver))
    t = time.time()
    try:
        c = sh('cd %s && VERIF_REPO=%s ./check %s --tier quick' % (ver, repo, prop), timeout=5400)
        rc, out = c.returncode, c.stdout + c.stderr
    except subprocess.TimeoutExpired:
        rc, out = -1, 'timeout'
    viol = re.findall(r'VIOLATION property=\S+ replay=\S+', out)
    reason = re.findall(r'^violation: (.*)$', out, re.M)
    meta['detected_by'] = {'check': './check %s --tier quick' % prop, 'exit': rc, 'detected': rc == 1 and bool(viol),
                           'first_reason': reason[0] if reason else None, 'wall_s': round(time.time() - t)}
    json.dump(meta, open(os.path.join(d, 'meta.json'), 'w'), indent=1)
    open('%s/%s.out' % (BASE, i), 'w').write(out)
    sh('git -C /repo worktree remove --force %s' % repo); shutil.rmtree(sb, ignore_errors=True)
    return i, prop, rc, ('DETECTED ' if meta['detected_by']['detected'] else 'MISSED ') + (reason[0] if reason else out[-300:].replace('\n', ' '))
os.makedirs(BASE, exist_ok=True)
import queue
slots = queue.Queue()
for k in range(J): slots.put(k)
def run(i):
    k = slots.get()
    try: return one((k, i))
    finally: slots.put(k)
with ThreadPoolExecutor(max_workers=J) as ex:
    for res in ex.map(run, ids):
        print(*res, flush=True)
