#!/usr/bin/env python3
"""Writes seeded/RESULTS.md from the meta.json files."""
import json, glob, os
ROOT = os.path.dirname(os.path.dirname(os.path.abspath(__file__)))
rows = []
for d in sorted(glob.glob(os.path.join(ROOT, 'seeded', 'C*'))):
    m = json.load(open(os.path.join(d, 'meta.json')))
    db = m.get('detected_by') or {}
    notes = open(os.path.join(d, 'notes.md')).read() if os.path.exists(os.path.join(d, 'notes.md')) else ''
    first = next((l.strip('# *').strip() for l in notes.splitlines() if l.strip() and not l.startswith('```')), '')
    rows.append((m['id'], m['breaks_property'], 'detected' if db.get('detected') else ('thorough tier' if db.get('detected_thorough') else ('missed' if db else 'not run')), db.get('first_reason') or '', db.get('wall_s', ''), first[:110]))
with open(os.path.join(ROOT, 'seeded', 'RESULTS.md'), 'w') as f:
    f.write('# Seeded changes: outcome of the registered quick check of the broken property\n\n')
    f.write('| id | property | outcome | first reason reported | s | what the change is |\n|---|---|---|---|---|---|\n')
    for r in rows: f.write('| %s | %s | %s | %s | %s | %s |\n' % r)
    det = sum(1 for r in rows if r[2] == 'detected'); th = sum(1 for r in rows if r[2] == 'thorough tier')
    f.write('\n%d of %d detected by the quick check of the property they break, %d more by its thorough check.\n' % (det, len(rows), th))
print(open(os.path.join(ROOT, 'seeded', 'RESULTS.md')).read())
