#!/usr/bin/env python3
"""Runs the registered quick check of the broken property against every seeded change under /verif/seeded.
usage: seed_run.py [ID ...]     (applies patch.diff to /repo, runs ./check, always undoes the patch)"""
import os, sys, json, subprocess, time, glob, re
ROOT = os.path.dirname(os.path.dirname(os.path.abspath(__file__)))
ids = sys.argv[1:] or sorted(os.path.basename(d) for d in glob.glob(os.path.join(ROOT, 'seeded', 'C*')))
def sh(cmd, **kw): return subprocess.run(cmd, shell=True, text=True, capture_output=True, **kw)
assert sh('git -C /repo status --porcelain').stdout.strip() == '', '/repo is not clean'
for i in ids:
    d = os.path.join(ROOT, 'seeded', i)
    meta = json.load(open(os.path.join(d, 'meta.json')))
    prop = meta['breaks_property']
    r = sh('git -C /repo apply %s/patch.diff' % d)
    if r.returncode != 0:
        print(i, 'PATCH DOES NOT APPLY', r.stderr[:200]); continue
    t = time.time()
    try:
        c = sh('cd %s && ./check %s --tier quick' % (ROOT, prop), timeout=3600)
        rc, out = c.returncode, c.stdout + c.stderr
    except subprocess.TimeoutExpired:
        rc, out = -1, 'timeout'
    finally:
        sh('git -C /repo checkout -- . && git -C /repo clean -fdq src')
    viol = re.findall(r'VIOLATION property=\S+ replay=\S+', out)
    reason = re.findall(r'^violation: (.*)$', out, re.M)
    meta['detected_by'] = {'check': './check %s --tier quick' % prop, 'exit': rc, 'detected': rc == 1 and bool(viol),
                           'first_reason': reason[0] if reason else None, 'wall_s': round(time.time() - t)}
    json.dump(meta, open(os.path.join(d, 'meta.json'), 'w'), indent=1)
    print(i, prop, 'exit', rc, 'DETECTED' if meta['detected_by']['detected'] else 'MISSED', (reason[0] if reason else out[-200:].replace('\n', ' ')), flush=True)
