#!/bin/bash
# usage: seed_verify.sh <PROP> <X> <srcdir>   - confirm a seeded change in a scratch worktree of /repo, keep it under /verif/seeded/
set -u
P=$1; X=$2; SRC=$3
ID=${P}_${X}
WT=/tmp/sv/wt_$ID
export CARGO_TARGET_DIR=/tmp/sv/target CARGO_NET_OFFLINE=true
mkdir -p /tmp/sv
git -C /repo worktree remove --force $WT 2>/dev/null
git -C /repo worktree add --detach $WT HEAD -q || exit 2
cp $SRC/demo_${ID}.rs $WT/tests/demo_${ID}.rs
cd $WT
echo "--- demo on unchanged code"
cargo test --offline --test demo_${ID} 2>&1 | grep -E "^test result|error" | head -3
before=$?
r1=$(cargo test --offline --test demo_${ID} 2>&1 | grep -c "test result: ok")
if ! git apply --check $SRC/${ID}.diff 2>/dev/null; then echo "PATCH DOES NOT APPLY to current HEAD"; git -C /repo worktree remove --force $WT; exit 3; fi
git apply $SRC/${ID}.diff
echo "--- demo with the change"
r2=$(cargo test --offline --test demo_${ID} 2>&1 | grep -c "test result: FAILED")
echo "--- existing suite with the change"
rm tests/demo_${ID}.rs
suite=$(cargo test --offline --lib --tests --no-fail-fast 2>&1 | grep -E "^test result" | awk '{p+=$4; f+=$6} END {print p" passed "f" failed"}')
echo "demo_before_ok=$r1 demo_after_failed=$r2 suite: $suite"
cd /
if [ "$r1" = "1" ] && [ "$r2" = "1" ] && [ "$suite" = "44 passed 0 failed" ]; then
  D=/verif/seeded/$ID; mkdir -p $D
  cp $SRC/${ID}.diff $D/patch.diff; cp $SRC/demo_${ID}.rs $D/demo.rs; cp $SRC/${ID}.md $D/notes.md 2>/dev/null
  python3 - "$P" "$ID" "$suite" <<'PY'
import json,sys,subprocess
p,i,suite=sys.argv[1:4]
head=subprocess.run(['git','-C','/repo','rev-parse','--short','HEAD'],capture_output=True,text=True).stdout.strip()
notes=open('/verif/seeded/%s/notes.md'%i).read() if True else ''
json.dump({'id':i,'breaks_property':p,'needs_to_manifest':'see notes.md','confirmed':{'repo_head':head,'demo_passes_unchanged':True,'demo_fails_with_change':True,'existing_suite_with_change':suite,
  'commands':['git worktree add --detach <scratch> HEAD','cargo test --offline --test demo_%s (pass)'%i,'git apply patch.diff','cargo test --offline --test demo_%s (FAILED)'%i,'cargo test --offline --lib --tests --no-fail-fast (44 passed)']},
  'detected_by':None}, open('/verif/seeded/%s/meta.json'%i,'w'), indent=1)
PY
  echo "KEPT $ID"
else
  echo "REJECTED $ID"
fi
git -C /repo worktree remove --force $WT
