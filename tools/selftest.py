"""Negative controls (./check selftest): the binding between specification and code is real.
 (a) every deliberately broken variant (`Mut`) of every specification is refuted by TLC, with the clause it is meant
     to break (non-vacuity of the invariants);
 (b) a recorded trace of the real crate is accepted as it is and rejected when one field is corrupted or one event
     is removed (the trace validator constrains more than the length of the trace);
exit 0 iff every control behaves as expected."""
import os, json, re, shutil, random, sys

COLL_MUTANTS = [
    # (base config, constants, clause expected)
    ('fub_b1', {'Mut': 'no_budget_wake'}, 'C01'),
    ('fub', {'Mut': 'no_notify'}, 'C01'),
    ('fub', {'Mut': 'register_once'}, 'C01'),
    ('fub', {'Mut': 'no_flag_clear'}, 'QueueMatchesFlags'),
    ('fub', {'Mut': 'no_vacate'}, 'C05'),
    ('fub_perp', {'Mut': 'lifo'}, 'C13'),
    ('mb', {'Mut': 'no_rearm', 'MaxPolls': 2}, 'ObligQueued'),
    ('mu_perp', {'CursorFix': False, 'NC': 2, 'MaxItems': 1}, 'C11|C13'),   # (the legacy loop breaks both; TLC reports the shorter one)
    ('mu', {'CursorFix': False}, 'C11'),
    ('bo', {'Mut': 'legacy_ordfill'}, 'C16'),
    ('tbu', {'Mut': 'legacy_tryhint', 'MaxPolls': 1}, 'C17'),
    ('ja', {'Mut': 'legacy_joinleak'}, 'C06'),
    ('tja', {'Mut': 'legacy_tryjoin'}, 'C07'),
    ('fub_panic', {'Mut': 'panic_requeue'}, 'C12'),
]
ORDERED_MUTANTS = ['no_rebase_inc', 'no_rebase_running', 'no_rebase_parked', 'rebase_on_inc', 'front_postdec', 'heap_max', 'release_no_compare']
RC_MUTANTS = [('DecOrd', 'Relaxed'), ('FenceOrd', 'Relaxed'), ('DecOrd', 'Acquire')]
WP_MUTANTS = [('notify_before_enqueue', 2), ('no_notify', 2), ('register_after_drain', 2), ('clear_after_poll', 2), ('no_budget_wake', 1), ('no_flag_guard', 2)]

def main(ck, tier, seed):
    import plan
    work = os.path.join(ck.ROOT, '.work', 'selftest_%d' % os.getpid())
    shutil.rmtree(work, ignore_errors=True); os.makedirs(work)
    bad = 0
    def report(name, ok, detail=''):
        nonlocal bad
        print('%-58s %s %s' % (name, 'ok' if ok else 'UNEXPECTED', detail), flush=True)
        if not ok: bad += 1
    try:
        ck.build_harness()
        # (a) specification mutants
        for base, consts, clause in COLL_MUTANTS:
            r = ck.run_mc({'name': base + '_mut', 'base': base, 'consts': consts, 'invariants': plan.COLL_INVS + ['WindowSound'], 'expect': clause}, work)
            hit = (not r['ok']) and any(cl in (r.get('violated') or '') or any(c[0] == cl for c in r.get('viol_clauses', [])) for cl in clause.split('|'))
            report('Coll %s %s refuted (%s)' % (base, consts, clause), hit, str(r.get('viol_clauses') or r.get('violated'))[:80])
        for mu in ORDERED_MUTANTS:
            cfg = os.path.join(work, 'om.cfg')
            open(cfg, 'w').write(open(os.path.join(ck.SPEC, 'MC_Ordered_k4.cfg')).read().replace('Mut = "none"', 'Mut = "%s"' % mu))
            rc, out = ck.tlc(os.path.join(ck.SPEC, 'MC_Ordered.tla'), cfg, work, workers=6, timeout=600)
            report('Ordered %s refuted' % mu, 'is violated' in out)
        for k, v in RC_MUTANTS:
            cfg = os.path.join(work, 'rc.cfg')
            open(cfg, 'w').write(re.sub(r' %s = "\w+"' % k, ' %s = "%s"' % (k, v), open(os.path.join(ck.SPEC, 'MC_RefCount.cfg')).read()))
            rc, out = ck.tlc(os.path.join(ck.SPEC, 'RefCount.tla'), cfg, work, workers=6, timeout=600)
            report('RefCount %s=%s refuted (NoRacyFree)' % (k, v), 'Invariant NoRacyFree is violated' in out)
        for mu, budget in WP_MUTANTS:
            cfg = os.path.join(work, 'wp.cfg')
            open(cfg, 'w').write(open(os.path.join(ck.SPEC, 'MC_WakerProtocol.cfg')).read().replace('Mut = "none"', 'Mut = "%s"' % mu).replace('Budget = 2', 'Budget = %d' % budget))
            rc, out = ck.tlc(os.path.join(ck.SPEC, 'WakerProtocol.tla'), cfg, work, workers=8, timeout=900)
            report('WakerProtocol %s refuted' % mu, 'is violated' in out)
        # (b) corrupted traces
        job = {'kind': 'fub', 'size': 'small', 'profile': 'mix', 'n_quick': 60, 'n_thorough': 60, 'hooklog': True}
        r = ck.run_random(job, work, seed, 'quick')
        lines = open(r['trace']).read().splitlines()
        def validate(ls, module='TraceAbs.tla', cfg='TraceAbs.cfg'):
            p = os.path.join(work, 'c.ndjson'); open(p, 'w').write('\n'.join(ls) + '\n')
            return ck.validate_one(p, module, cfg, work)[1]
        report('recorded trace accepted by Abs', validate(lines) == [])
        report('recorded trace accepted by AbsRc', validate(lines, 'TraceRc.tla', 'TraceRc.cfg') == [])
        rnd = random.Random(seed)
        def corrupt(name, pred, edit, module='TraceAbs.tla', cfg='TraceAbs.cfg'):
            idx = [i for i, l in enumerate(lines) if pred(l)]
            if not idx: report(name, False, 'no such event in the trace'); return
            i = rnd.choice(idx)
            ls = list(lines); new = edit(ls[i])
            if new is None: del ls[i]
            else: ls[i] = new
            v = validate(ls, module, cfg)
            report(name, len(v) > 0, '-> ' + (v[0][1] + ': ' + v[0][2][:60] if v else 'accepted'))
        corrupt('yielded item attributed to another child', lambda l: '"e":"ret","res":"item"' in l, lambda l: re.sub(r'"c":(\d+)', lambda m: '"c":%d' % (int(m.group(1)) + 50), l))
        corrupt('a child drop removed from the trace', lambda l: l.startswith('{"e":"cdrop"'), lambda l: None)
        corrupt('a task wake removed from the trace', lambda l: l.startswith('{"e":"tw"'), lambda l: None)
        corrupt('len() off by one', lambda l: l.startswith('{"e":"obs"') and '"len":1' in l, lambda l: l.replace('"len":1', '"len":2'))
        corrupt('child address changed', lambda l: l.startswith('{"e":"cin"') and '"addr":1}' in l, lambda l: l.replace('"addr":1}', '"addr":77}'))
        corrupt('an output drop duplicated', lambda l: l.startswith('{"e":"odrop"'), lambda l: l + '\n' + l)
        corrupt('refcount old value corrupted', lambda l: l.startswith('{"e":"strong"') and '"op":"dec"' in l, lambda l: re.sub(r'"old":(\d+)', lambda m: '"old":%d' % (int(m.group(1)) + 1), l), 'TraceRc.tla', 'TraceRc.cfg')
        corrupt('block release removed', lambda l: l.startswith('{"e":"bfree"'), lambda l: None, 'TraceRc.tla', 'TraceRc.cfg')
        corrupt('waker resolved to another header', lambda l: l.startswith('{"e":"vt"'), lambda l: l.replace('"hb":1', '"hb":2'), 'TraceRc.tla', 'TraceRc.cfg')
    except ck.ToolError as e:
        print('TOOL ERROR: %s' % e); return 2
    finally:
        shutil.rmtree(work, ignore_errors=True)
    print('selftest: %d unexpected outcome(s)' % bad)
    return 0 if bad == 0 else 1
